#!/bin/sh
# Build /verif/.venv offline: /venv's interpreter + /venv's site-packages (numpy, numba, torch, qutip)
# + z3-solver and crosshair-tool from the offline wheelhouse.  Idempotent; safe to call concurrently.
set -e
cd "$(dirname "$0")"
if [ -x .venv/bin/python ] && .venv/bin/python -c "import z3, numpy, numba" 2>/dev/null; then exit 0; fi
exec 9>.venv.lock
flock 9
if [ -x .venv/bin/python ] && .venv/bin/python -c "import z3, numpy, numba" 2>/dev/null; then exit 0; fi
rm -rf .venv
/venv/bin/python -m venv .venv
SP=$(.venv/bin/python -c "import sysconfig; print(sysconfig.get_paths()['purelib'])")
echo "import site; site.addsitedir('/venv/lib/python3.12/site-packages')" > "$SP/_venv_overlay.pth"
PIP_NO_INDEX=1 .venv/bin/python -m pip install -q --no-index --find-links /opt/veriftools/wheels z3-solver crosshair-tool jsonschema >/dev/null 2>&1 || \
PIP_NO_INDEX=1 .venv/bin/python -m pip install -q --no-index --find-links /opt/veriftools/wheels z3-solver
.venv/bin/python -c "import z3, numpy, numba; print('venv ok', z3.get_version_string())"
