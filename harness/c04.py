"""C04  Clifford maps form a group under compose and inverse."""
import itertools
import numpy as np
from .common import *

CLASS_LAYER = ['CliffordMap.compose', 'CliffordMap.inverse', 'identity_map', 'PauliList.transform_by']
TV_KERNELS = ['z2inv', 'pauli_combine', 'pauli_transform', 'ps0']
BOUNDS = {'quick': '(a) identity neutral, any table N<=3; (b) inverse laws over ALL valid maps N<=2; (c) z2inv on arbitrary binary n x n, n<=4; (d)(e)(f) two/three arbitrary valid maps at N=1, at N=2 one arbitrary valid map with maps from constructed families (rotation maps of a symbolic generator, embedded symbolic one-qubit maps)',
          'thorough': '(d) compose-is-sequential and (f) inverse-of-composition for ALL pairs of valid two-qubit maps by the 720-way case split on the string part of one map; (b) N=3 as stretch'}
OUTSIDE = 'N>=3 with arbitrary valid maps (parity-hard for CDCL); associativity for three arbitrary maps at N=2 is reported as "by (d)" plus the structural query, the direct three-map query is a stretch'
ASSUMPTIONS = ['valid map: canonical commutation relations under the reference form, phases even']


def pre(tier):
    return dict(oracle_checked=ref.self_check(2))


def identity_table(N):
    return oarr(np.eye(2 * N, dtype=int)), oarr([0] * (2 * N))


def ref_compose(ag, ap, bg, bp):
    """rows of a transformed by b (a first, then b)"""
    n2 = ag.shape[0]
    g = np.empty((n2, n2), dtype=object)
    p = np.empty((n2,), dtype=object)
    for i in range(n2):
        g[i], p[i] = ref.ref_transform(ag[i], ap[i], bg, bp)
    return g, p


def rotation_table(gg, pg, N):
    g = np.empty((2 * N, 2 * N), dtype=object)
    p = np.empty((2 * N,), dtype=object)
    for k in range(2 * N):
        unit = oarr([1 if i == k else 0 for i in range(2 * N)])
        g[k], p[k] = ref.ref_rotate(gg, pg, unit, 0)
    return g, p


def family_map(env, name, N, family):
    """(gs, ps, assumption) of a map from a named family; 'valid' = arbitrary valid map (constraint)"""
    if family == 'valid':
        g = env.bits(name, (2 * N, 2 * N))
        p = env.signs(name + '_sign', (2 * N,))
        return g, p, ref.symplectic(g)
    if family == 'rotation':
        gg = env.bits(name + '_gen', (2 * N,))
        pg = env.signs(name + '_gensign', (1,))[0]
        g, p = rotation_table(gg, pg, N)
        return g, p, True
    if family.startswith('embed'):
        q = int(family[5:])
        sg = env.bits(name, (2, 2))
        sp = env.signs(name + '_sign', (2,))
        from .c03 import embedded_table
        mask = [i == q for i in range(N)]
        g, p = embedded_table(sg, sp, mask, N)
        return g, p, ref.symplectic(sg)
    if family == 'frame':
        # Pauli frame: identity table, symbolic signs (conjugation by a Pauli operator)
        p = env.signs(name + '_sign', (2 * N,))
        return oarr(np.eye(2 * N, dtype=int)), p, True
    if family.startswith('gate:'):
        # concrete table of a named gate placed in the register, e.g. 'gate:CNOT:0,2' or 'gate:H:0+S:2' (product of one-qubit gates)
        from .c11 import oracle_table
        from .c03 import embedded_table
        g = oarr(np.eye(2 * N, dtype=int))
        p = oarr([0] * (2 * N))
        for part in family[5:].split('+'):
            nm, qs = part.split(':')
            qs = [int(q) for q in qs.split(',')]
            tab = oracle_table(nm if nm != 'CNOT' else ('CNOT_lt' if qs[0] < qs[1] else 'CNOT_gt'), len(qs))
            tg, tp = embedded_table(oarr(tab[0]), oarr(tab[1]), [i in qs for i in range(N)], N)
            g, p = ref_compose(g, p, tg, tp)
        return g, p, True
    if family.startswith('fixed:'):
        if family not in FIXED:                       # a replay process starts with an empty table cache
            FIXED[family] = symplectic_tables(2)[int(family[6:])]
        tab = FIXED[family]
        p = env.signs(name + '_sign', (2 * N,))
        return oarr(tab), p, True
    raise KeyError(family)


FIXED = {}


def symplectic_tables(N):
    """all symplectic 2N x 2N binary matrices (reference form), enumerated from the oracle: 6 for N=1, 720 for N=2"""
    n2 = 2 * N
    rows = list(itertools.product((0, 1), repeat=n2))
    anti = {(a, b): bool(ref.ref_anti(list(a), list(b))) for a in rows for b in rows}
    out = []

    def rec(chosen):
        k = len(chosen)
        if k == n2:
            out.append([list(r) for r in chosen])
            return
        for r in rows:
            ok = True
            for j, c in enumerate(chosen):
                want = (k == j + 1 and j % 2 == 0)
                if anti[(c, r)] != want:
                    ok = False
                    break
            if ok:
                rec(chosen + [r])
    rec([])
    return out


def h_identity_neutral(env, N):
    M = Mods(env)
    mg = env.bits('map', (2 * N, 2 * N))
    mp = env.phases('map_ps', (2 * N,))
    m = M.st.CliffordMap(mg.copy(), mp.copy())
    r = env.run(lambda: (m.compose(M.st.identity_map(N)), M.st.identity_map(N).compose(m)))
    env.goal('no_exception', b_not(r.raised))
    if r.value is not None:
        a, b = r.value
        env.goal('right_neutral', b_and(arr_eq(a.gs, mg), arr_eq(a.ps, mp)))
        env.goal('left_neutral', b_and(arr_eq(b.gs, mg), arr_eq(b.ps, mp)))
        env.goal('operand_unchanged', b_and(arr_eq(m.gs, mg), arr_eq(m.ps, mp)))
        env.goal('returns_new_map', (a is not m) and (b is not m) and isinstance(a, M.st.CliffordMap))
    # identity_map hands out fresh tables: one that was changed in place does not leak into the next request
    def spoil_and_request():
        e = M.st.identity_map(N)
        e.gs[0] = e.gs[-1]
        e.ps[:] = 2
        e.rotate_by(M.pa.Pauli(env.const([1, 1] * N), 0))
        return M.st.identity_map(N)
    r2 = env.run(spoil_and_request)
    idg, idp = identity_table(N)
    env.goal('identity_after_spoiling_an_earlier_identity', b_and(b_not(r2.raised), b_and(arr_eq(r2.value.gs, idg), arr_eq(r2.value.ps, idp)) if r2.value is not None else False))


def h_inverse(env, N, fix=None):
    M = Mods(env)
    if fix is None:
        mg = env.bits('map', (2 * N, 2 * N))
        env.assume(ref.symplectic(mg), 'map valid')
    else:
        mg = env.const(fix)
    mp = env.signs('map_sign', (2 * N,))
    m = M.st.CliffordMap(mg.copy(), mp.copy())
    r = env.run(lambda: m.inverse())
    env.goal('no_exception', b_not(r.raised))
    if r.value is None:
        return
    inv = r.value
    idg, idp = identity_table(N)
    env.goal('inverse_valid', ref.valid_map(inv.gs, inv.ps))
    r2 = env.run(lambda: (m.compose(inv), inv.compose(m), inv.inverse()))
    env.goal('no_exception2', b_not(r2.raised))
    if r2.value is not None:
        a, b, ii = r2.value
        env.goal('m_then_inverse_strings', arr_eq(a.gs, idg))
        env.goal('m_then_inverse_phases', arr_eq(a.ps, idp))
        env.goal('inverse_then_m_strings', arr_eq(b.gs, idg))
        env.goal('inverse_then_m_phases', arr_eq(b.ps, idp))
        env.goal('double_inverse_strings', arr_eq(ii.gs, mg))
        env.goal('double_inverse_phases', arr_eq(ii.ps, mp))
    # independent statement of the inverse: applying m then inv to any operator is the identity (reference transform)
    g = env.bits('g', (2 * N,))
    p = env.phases('p', (1,))[0]
    g1, p1 = ref.ref_transform(g, p, mg, mp)
    g2, p2 = ref.ref_transform(g1, p1, inv.gs, inv.ps)
    env.goal('reference_roundtrip', b_and(arr_eq(g2, g), eq(p2, p)))
    env.goal('operand_unchanged', b_and(arr_eq(m.gs, mg), arr_eq(m.ps, mp)))
    env.goal('no_shared_memory', not (np.shares_memory(inv.gs, m.gs) or np.shares_memory(inv.ps, m.ps)))


def h_z2inv(env, n):
    """z2inv on an ARBITRARY binary matrix: the inverse when one exists, ValueError exactly when singular"""
    M = Mods(env)
    A = env.bits('mat', (n, n))
    snap = snapshot(A)
    r = env.run(lambda: M.ut.z2inv(A))
    singular = OR(AND(eq(sum((A[i, j] * v[j] for j in range(n)), 0) % 2, 0) for i in range(n))
                  for v in itertools.product((0, 1), repeat=n) if any(v))
    env.goal('valueerror_iff_singular', eq(r.raised_kind('ValueError'), singular))
    env.goal('no_other_exception', b_not(r.raised_other('ValueError')))
    if r.value is not None:
        B = r.value
        for i in range(n):
            for j in range(n):
                dot = sum((A[i, k] * B[k, j] for k in range(n)), 0) % 2
                env.goal('product[%d,%d]' % (i, j), b_or(singular, eq(dot, 1 if i == j else 0)))
        env.goal('binary', b_or(singular, ref.binary(B)))
    env.goal('argument_unchanged', unchanged(snap, A))


def h_sequential(env, N, fam_b, fam_c, with_inverse=True):
    """b.compose(c) acts on every operator as b first, then c"""
    M = Mods(env)
    bg, bp, vb = family_map(env, 'b', N, fam_b)
    cg, cp, vc = family_map(env, 'c', N, fam_c)
    env.assume(vb, 'b valid')
    env.assume(vc, 'c valid')
    B = M.st.CliffordMap(S_(env, bg), S_(env, bp))
    C = M.st.CliffordMap(S_(env, cg), S_(env, cp))
    g = env.bits('g', (1, 2 * N))
    p = env.phases('p', (1,))
    o1 = M.pa.PauliList(g.copy(), p.copy())
    o2 = M.pa.PauliList(g.copy(), p.copy())
    r = env.run(lambda: (o1.transform_by(B.compose(C)), o2.transform_by(B).transform_by(C)))
    env.goal('no_exception', b_not(r.raised))
    if r.value is None:
        return
    for i in range(2 * N):
        env.goal('string[%d]' % i, eq(o1.gs[0][i], o2.gs[0][i]))
    env.goal('phase', eq(o1.ps[0], o2.ps[0]))
    # and against the reference (the step-by-step application uses the same kernel as compose): b first, then c
    e1 = ref.ref_transform(g[0], p[0], bg, bp)
    e2 = ref.ref_transform(e1[0], e1[1], cg, cp)
    env.goal('equals_reference_b_then_c', b_and(arr_eq(o1.gs[0], e2[0]), eq(o1.ps[0], e2[1])))
    env.goal('operands_unchanged', AND([arr_eq(B.gs, bg), arr_eq(B.ps, bp), arr_eq(C.gs, cg), arr_eq(C.ps, cp)]))
    # (f) inverse of the composition is the reversed composition of the inverses
    if not with_inverse:
        return
    r2 = env.run(lambda: (B.compose(C).inverse(), C.inverse().compose(B.inverse())))
    env.goal('inv_no_exception', b_not(r2.raised))
    if r2.value is not None:
        x, y = r2.value
        env.goal('inverse_of_composition_strings', arr_eq(x.gs, y.gs))
        env.goal('inverse_of_composition_phases', arr_eq(x.ps, y.ps))


def h_self_compose(env, N):
    """a map composed with itself / inverted twice in a row (same object as both operands, repeated calls)"""
    M = Mods(env)
    mg = env.bits('map', (2 * N, 2 * N))
    mp = env.signs('map_sign', (2 * N,))
    env.assume(ref.symplectic(mg), 'map valid')
    m = M.st.CliffordMap(mg.copy(), mp.copy())
    r = env.run(lambda: (m.compose(m), m.inverse(), m.inverse()))
    env.goal('no_exception', b_not(r.raised))
    if r.value is None:
        return
    sq, i1, i2 = r.value
    wg, wp = ref_compose(mg, mp, mg, mp)
    env.goal('square_strings', arr_eq(sq.gs, wg))
    env.goal('square_phases', arr_eq(sq.ps, wp))
    env.goal('inverse_is_repeatable', b_and(arr_eq(i1.gs, i2.gs), arr_eq(i1.ps, i2.ps)))
    env.goal('operand_unchanged', b_and(arr_eq(m.gs, mg), arr_eq(m.ps, mp)))
    env.goal('results_are_distinct_objects', (i1 is not i2) and not np.shares_memory(i1.gs, i2.gs) and not np.shares_memory(sq.gs, m.gs))


def h_inverse_history(env, N, family, how):
    """inverse, then the map is changed in place (rotated, its table edited, transformed), then inverse again: the second
    inverse inverts the map as it is now (composes with it to the identity, both ways)"""
    M = Mods(env)
    mg, mp, ok = family_map(env, 'map', N, family)
    env.assume(ok, 'map valid')
    m = M.st.CliffordMap(S_(env, mg), S_(env, mp))
    r = env.run(lambda: m.inverse())
    env.goal('first_inverse_no_exception', b_not(r.raised))
    if how == 'rotate':
        gg = env.bits('gen', (2 * N,))
        pg = 2 * env.signs('gen_sign', (1,))[0] if False else env.signs('gen_sign', (1,))[0]
        r1 = env.run(lambda: m.rotate_by(M.pa.Pauli(gg.copy(), pg)))
        ng = np.empty((2 * N, 2 * N), dtype=object)
        npp = np.empty((2 * N,), dtype=object)
        for k in range(2 * N):
            ng[k], npp[k] = ref.ref_rotate(gg, pg, mg[k], mp[k])
    elif how == 'edit':
        # swap the images of X_0 and Z_0 in place and flip a sign: still a valid map (up to the sign of the pair)
        def edit():
            row = m.gs[0].copy()
            m.gs[0] = m.gs[1]
            m.gs[1] = row
            m.ps[0], m.ps[1] = m.ps[1], (m.ps[0] + 2) % 4
        r1 = env.run(edit)
        ng = np.array(mg, dtype=object).copy()
        ng[0], ng[1] = np.array(mg[1], dtype=object), np.array(mg[0], dtype=object)
        npp = np.array(mp, dtype=object).copy()
        npp[0], npp[1] = mp[1], (mp[0] + 2) % 4
    else:
        og, op, ok2 = family_map(env, 'other', N, 'frame' if N > 1 else 'valid')
        env.assume(ok2, 'other map valid')
        r1 = env.run(lambda: m.transform_by(M.st.CliffordMap(S_(env, og), S_(env, op))))
        ng, npp = ref_compose(mg, mp, og, op)
    env.goal('update_no_exception', b_not(r1.raised))
    env.goal('updated_table', b_and(arr_eq(m.gs, ng), arr_eq(m.ps, npp)))
    r2 = env.run(lambda: m.inverse())
    env.goal('second_inverse_no_exception', b_not(r2.raised))
    if r2.value is None:
        return
    inv = r2.value
    idg, idp = identity_table(N)
    ag, ap = ref_compose(ng, npp, inv.gs, inv.ps)
    bg, bp = ref_compose(inv.gs, inv.ps, ng, npp)
    env.goal('m_then_second_inverse', b_and(arr_eq(ag, idg), arr_eq(ap, idp)))
    env.goal('second_inverse_then_m', b_and(arr_eq(bg, idg), arr_eq(bp, idp)))


def S_(env, a):
    """fresh array of the right kind holding the (possibly derived) entries"""
    if env.symbolic:
        from symclif.shim_numpy import S
        return S(np.array(a, dtype=object).copy())
    return np.array(a, dtype=int)


def h_assoc(env, N, fams):
    M = Mods(env)
    maps = []
    for t, fam in zip('abc', fams):
        g, p, v = family_map(env, t, N, fam)
        env.assume(v, t + ' valid')
        maps.append(M.st.CliffordMap(S_(env, g), S_(env, p)))
    a, b, c = maps
    r = env.run(lambda: (a.compose(b).compose(c), a.compose(b.compose(c))))
    env.goal('no_exception', b_not(r.raised))
    if r.value is not None:
        l, rr = r.value
        env.goal('assoc_strings', arr_eq(l.gs, rr.gs))
        for i in range(2 * N):
            env.goal('assoc_phase[%d]' % i, eq(l.ps[i], rr.ps[i]))


def h_assoc_structural(env, N):
    """for ANY three tables: rows of (a.b).c are T_c(T_b(a_i)) and rows of a.(b.c) are T_(b.c)(a_i)  --  so
    associativity for valid maps is exactly compose-is-sequential (d) at P = a_i"""
    M = Mods(env)
    tabs = []
    for t in 'abc':
        g = env.bits(t, (2 * N, 2 * N))
        p = env.phases(t + '_ps', (2 * N,))
        tabs.append((g, p))
    a, b, c = [M.st.CliffordMap(g.copy(), p.copy()) for g, p in tabs]
    r = env.run(lambda: (a.compose(b).compose(c), a.compose(b.compose(c)), b.compose(c)))
    env.goal('no_exception', b_not(r.raised))
    if r.value is None:
        return
    l, rr, bc = r.value
    for i in range(2 * N):
        g1, p1 = ref.ref_transform(tabs[0][0][i], tabs[0][1][i], tabs[1][0], tabs[1][1])
        g2, p2 = ref.ref_transform(g1, p1, tabs[2][0], tabs[2][1])
        env.goal('left_row%d' % i, b_and(arr_eq(l.gs[i], g2), eq(l.ps[i], p2)))
        g3, p3 = ref.ref_transform(tabs[0][0][i], tabs[0][1][i], bc.gs, bc.ps)
        env.goal('right_row%d' % i, b_and(arr_eq(rr.gs[i], g3), eq(rr.ps[i], p3)))


def jobs(tier):
    J = []
    for N in (1, 2, 3):
        J.append(dict(harness=('c04', 'h_identity_neutral'), params=dict(N=N)))
    for N in (1, 2):
        J.append(dict(harness=('c04', 'h_inverse'), params=dict(N=N), timeout_s=300, cost=30))
        J.append(dict(harness=('c04', 'h_assoc_structural'), params=dict(N=N)))
    for n in (1, 2, 3, 4):
        J.append(dict(harness=('c04', 'h_z2inv'), params=dict(n=n), cost=5 * n))
    J.append(dict(harness=('c04', 'h_sequential'), params=dict(N=1, fam_b='valid', fam_c='valid')))
    J.append(dict(harness=('c04', 'h_assoc'), params=dict(N=1, fams=['valid'] * 3)))
    fams2 = ['rotation', 'embed0', 'embed1']
    for N in (1, 2):
        for fb, fc in (('valid', 'frame'), ('frame', 'valid'), ('frame', 'frame')):
            J.append(dict(harness=('c04', 'h_sequential'), params=dict(N=N, fam_b=fb, fam_c=fc), timeout_s=300, cost=10))
        J.append(dict(harness=('c04', 'h_self_compose'), params=dict(N=N), timeout_s=300, cost=10))
        for how in ('rotate', 'edit', 'transform'):
            for family in (('valid',) if N == 1 else ('rotation', 'embed1')):
                J.append(dict(harness=('c04', 'h_inverse_history'), params=dict(N=N, family=family, how=how), timeout_s=300, cost=15))
    for f in fams2:
        wi = (tier == 'thorough') or f != 'rotation'
        J.append(dict(harness=('c04', 'h_sequential'), params=dict(N=2, fam_b='valid', fam_c=f, with_inverse=wi), timeout_s=300, cost=20))
        J.append(dict(harness=('c04', 'h_sequential'), params=dict(N=2, fam_b=f, fam_c='valid', with_inverse=wi), timeout_s=300, cost=20))
    for fa in fams2:
        for fb in fams2:
            J.append(dict(harness=('c04', 'h_sequential'), params=dict(N=2, fam_b=fa, fam_c=fb)))
    for fs in (['rotation', 'embed0', 'rotation'], ['embed1', 'rotation', 'embed0'], ['rotation', 'rotation', 'rotation']):
        J.append(dict(harness=('c04', 'h_assoc'), params=dict(N=2, fams=fs), timeout_s=300))
    J.append(dict(harness=('c04', 'h_sequential'), params=dict(N=3, fam_b='embed0', fam_c='rotation', with_inverse=False), timeout_s=300))
    # second operands that are idle on a qubit between two active ones (named gates placed in a three-qubit register)
    for fc in ('gate:CNOT:0,2', 'gate:CNOT:2,0', 'gate:H:0+S:2', 'gate:S:1', 'gate:CNOT:1,2'):
        for fb in ('rotation', 'gate:CNOT:0,1'):
            J.append(dict(harness=('c04', 'h_sequential'), params=dict(N=3, fam_b=fb, fam_c=fc, with_inverse=(fb != 'rotation')), timeout_s=300, cost=10))
    if tier == 'thorough':
        J.append(dict(harness=('c04', 'h_sequential'), params=dict(N=3, fam_b='rotation', fam_c='rotation', with_inverse=False), timeout_s=600, cost=60))
        tabs = symplectic_tables(2)
        for k, t in enumerate(tabs):
            FIXED['fixed:%d' % k] = t
            J.append(dict(harness=('c04', 'h_sequential'), params=dict(N=2, fam_b='fixed:%d' % k, fam_c='valid'),
                          timeout_s=120, label='split720:h_sequential[b=table %d, c=valid]' % k))
        J.append(dict(harness=('c04', 'h_inverse'), params=dict(N=3), timeout_s=300, wall_s=1500, claimed=False,
                      label='stretch:h_inverse{"N": 3}', cost=100))
    return J
