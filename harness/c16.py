"""C16  Random Cliffords are valid and uniformly distributed."""
import itertools
import json
import os
import time
import numpy as np
import z3
from .common import *
from .tableau import sym_state, mk_state, inv_goals
from symclif.values import STORE, bexpr, mkbool, is_sym, SV
from symclif import explore

CLASS_LAYER = ['random_clifford (recursive sampler)', 'random_pauli_map', 'random_clifford_map', 'random_pauli_state', 'random_clifford_state', 'random_bit_state',
               'CliffordGate.forward/backward without maps', 'brickwall_rcc', 'onsite_rcc', 'global_rcc']
TV_KERNELS = ['pauli_diagonalize1', 'pauli_diagonalize2', 'clifford_rotate_signless', 'front', 'acq', 'pauli_is_onsite', 'stabilizer_measure']
BOUNDS = {'quick': 'validity for every coin value: random_pair N<=3, random_pauli N<=3, random_clifford N<=3, *_map/*_state N<=2, random circuits (onsite, global, brick-wall depth 1) on an arbitrary Inv state N=2; sign bits bijective in their coins; uniformity by pigeonhole (K+1-copy query) for random_clifford N<=2 and random_pauli N<=2; every one of the 720 two-qubit tables has K distinct preimages',
          'thorough': 'N=3: the 720 tables diag(1, S) each have 8 distinct preimages; 9-copy query as stretch'}
OUTSIDE = 'brick walls deeper than one layer (36 paths per random two-qubit gate multiply; each further gate is the inductive step C05/h_step_random_gate); statistical quality and independence of numba / numpy RNG bits (assumption); uniformity for N>=4 and, unless the stretch obligation discharges, the full N=3 statement; |Sp(2N,2)| = 6, 720, 1451520 from the literature'
ASSUMPTIONS = ['coins are independent fair bits', 'rejection loop: conditioning on the first draw being accepted (independent redraws give the conditional distribution)',
               'pigeonhole: T accepted coin vectors, at most K = T/|Sp| per table, range inside Sp  =>  exactly K per table']
STUBS = ['numpy.random.randint -> fresh solver variables', 'while loop of random_pair unrolled once more with the redraw assumed accepted']
SP = {1: 6, 2: 720, 3: 1451520}


def pre(tier):
    return dict(oracle_checked=ref.self_check(2))


def h_random_pair(env, N):
    M = Mods(env)
    res = env.run(lambda: M.ut.random_pair(N))
    env.goal('no_exception', b_not(res.raised))
    if res.value is not None:
        g1, g2 = res.value
        env.goal('binary', b_and(ref.binary(g1), ref.binary(g2)))
        env.goal('g1_not_identity', b_not(arr_eq(g1, [0] * (2 * N))))
        env.goal('pair_anticommutes', ref.ref_anti(g1, g2))


h_random_pair.uses_rng = True


def h_random_table(env, N, which):
    """random_pauli / random_clifford (strings) and the *_map / *_state constructors: valid for every coin value"""
    M = Mods(env)
    f = {'random_pauli': lambda: M.ut.random_pauli(N), 'random_clifford': lambda: M.ut.random_clifford(N),
         'random_pauli_map': lambda: M.st.random_pauli_map(N), 'random_clifford_map': lambda: M.st.random_clifford_map(N)}[which]
    res = env.run(f)
    env.goal('no_exception', b_not(res.raised))
    if res.value is None:
        return
    v = res.value
    gs = v.gs if hasattr(v, 'gs') else v
    ok = tuple(np.shape(gs)) == (2 * N, 2 * N)
    env.goal('shape', ok)
    if not ok:
        return
    env.goal('binary', ref.binary(gs))
    for i in range(2 * N):
        for j in range(i + 1, 2 * N):
            want = (j == i + 1 and i % 2 == 0)
            a = ref.ref_anti(gs[i], gs[j])
            env.goal('commutation[%d,%d]' % (i, j), a if want else b_not(a))
    if hasattr(v, 'ps'):
        env.goal('phases_hermitian', AND(eq(v.ps[i] % 2, 0) for i in range(2 * N)))
        if env.symbolic:
            coins = env.coins()[-2 * N:]
            for i in range(2 * N):
                v0 = z3.substitute(bexpr(eq(v.ps[i], 0)), (coins[i].e, z3.BitVecVal(0, 1)))
                v1 = z3.substitute(bexpr(eq(v.ps[i], 0)), (coins[i].e, z3.BitVecVal(1, 1)))
                env.goal('sign%d_bijective_in_its_coin' % i, mkbool(v0 != v1))
        else:
            env.observe('signs', [int(x) for x in v.ps])
            env.observe('signs#distinct', min(2 ** (2 * N), 8))
    if which == 'random_pauli':
        for i in range(N):
            for row in (2 * i, 2 * i + 1):
                env.goal('row%d_on_qubit_%d_only' % (row, i), AND(eq(gs[row][2 * k + b], 0) for k in range(N) if k != i for b in (0, 1)))


h_random_table.uses_rng = True
h_random_table.variation_goals = {'sign%d_bijective_in_its_coin' % i: 'signs' for i in range(8)}


def h_random_circuit(env, N, r, which, direction):
    """states produced by the random-gate circuit constructors are valid; gates without maps resample at every call"""
    M = Mods(env)
    gs, ps = sym_state(env, N)
    state = mk_state(M, env, gs, ps, r)
    circ = {'onsite': lambda: M.ci.onsite_rcc(N), 'global': lambda: M.ci.global_rcc(N), 'brickwall': lambda: M.ci.brickwall_rcc(N, 1)}[which]()
    n0 = len(env.coins()) if env.symbolic else 0
    res = env.run(lambda: getattr(circ, direction)(state))
    env.goal('no_exception', b_not(res.raised))
    if res.value is None:
        return
    inv_goals(env, state.gs, state.ps, state.r, N, r)
    env.goal('rank_unchanged', eq(state.r, r))
    gates = [g for l in circ.layers_forward() for g in l.gates]
    env.goal('nothing_cached', all(g.forward_map is None and g.backward_map is None and g.generator is None for g in gates))
    if env.symbolic:
        n1 = len(env.coins())
        s2 = mk_state(M, env, gs, ps, r)
        res2 = env.run(lambda: getattr(circ, direction)(s2))
        n2 = len(env.coins())
        env.goal('second_call_draws_fresh_coins', b_and(b_not(res2.raised), (n2 - n1) == (n1 - n0) and n1 > n0))
        first = set(str(c.e) for c in env.coins()[n0:n1])
        second = set(str(c.e) for c in env.coins()[n1:n2])
        used = set()
        for x in list(np.asarray(s2.gs, dtype=object).reshape(-1)) + list(np.asarray(s2.ps, dtype=object).reshape(-1)):
            if isinstance(x, SV):
                used |= set(str(v) for v in z3_vars(x.e))
        env.goal('second_result_depends_on_its_own_coins_only', bool(used & second) and not (used & first))


def h_two_samples(env, N, which):
    """two samples drawn one after the other are independent objects: drawing the second leaves the first untouched
    (a sampler that hands out one shared buffer makes every retained sample equal to the latest one)"""
    M = Mods(env)
    f = {'random_pauli': lambda: M.ut.random_pauli(N), 'random_clifford': lambda: M.ut.random_clifford(N),
         'random_pauli_map': lambda: M.st.random_pauli_map(N), 'random_clifford_map': lambda: M.st.random_clifford_map(N),
         'random_pauli_state': lambda: M.st.random_pauli_state(N), 'random_clifford_state': lambda: M.st.random_clifford_state(N)}[which]
    r1 = env.run(f)
    env.goal('first_no_exception', b_not(r1.raised))
    if r1.value is None:
        return
    a = r1.value
    parts_of = lambda v: [np.array(v.gs, dtype=object), np.array(v.ps, dtype=object)] if hasattr(v, 'gs') else [np.array(v, dtype=object)]
    before = [x.copy() for x in parts_of(a)]
    r2 = env.run(f)
    env.goal('second_no_exception', b_not(r2.raised))
    after = parts_of(a)
    env.goal('first_sample_unchanged_by_second_draw', AND(arr_eq(x, y) for x, y in zip(before, after)))
    if r2.value is not None:
        b = r2.value
        shares = any(np.shares_memory(np.asarray(x), np.asarray(y)) for x in ([a.gs, a.ps] if hasattr(a, 'gs') else [a]) for y in ([b.gs, b.ps] if hasattr(b, 'gs') else [b]))
        env.goal('samples_do_not_share_memory', not shares)


h_two_samples.uses_rng = True


def h_povm_samples(env, N, which, cls='CliffordCircuit'):
    """circ.povm(2) of a random-gate circuit, both samples kept: each is a valid state, drawing the second leaves the first
    untouched, they share no memory, and the second depends on its own coins only"""
    M = Mods(env)
    base = {'onsite': lambda: M.ci.onsite_rcc(N), 'global': lambda: M.ci.global_rcc(N), 'brickwall': lambda: M.ci.brickwall_rcc(N, 1)}[which]()
    if cls == 'Circuit':
        circ = M.ci.Circuit(N)
        for layer in base.layers_forward():
            for gt in layer.gates:
                circ.take(gt)
    else:
        circ = base
    gen = circ.povm(2)
    r1 = env.run(lambda: next(gen))
    env.goal('first_no_exception', b_not(r1.raised))
    if r1.value is None:
        return
    a = r1.value
    ga, pa, ra = np.array(a.gs, dtype=object).copy(), np.array(a.ps, dtype=object).copy(), a.r
    inv_goals(env, a.gs, a.ps, a.r, N, None, 'first_')
    n1 = len(env.coins()) if env.symbolic else 0
    r2 = env.run(lambda: next(gen))
    env.goal('second_no_exception', b_not(r2.raised))
    if r2.value is None:
        return
    b = r2.value
    inv_goals(env, b.gs, b.ps, b.r, N, None, 'second_')
    env.goal('first_sample_unchanged_by_second_draw', AND([arr_eq(a.gs, ga), arr_eq(a.ps, pa), eq(a.r, ra)]))
    env.goal('samples_share_no_memory', not (np.shares_memory(np.asarray(a.gs), np.asarray(b.gs)) or np.shares_memory(np.asarray(a.ps), np.asarray(b.ps))))
    if env.symbolic:
        first = set(str(c.e) for c in env.coins()[:n1])
        used = set()
        for x in list(np.asarray(b.gs, dtype=object).reshape(-1)) + list(np.asarray(b.ps, dtype=object).reshape(-1)):
            if isinstance(x, SV):
                used |= set(str(v) for v in z3_vars(x.e))
        env.goal('second_sample_independent_of_first_coins', not (used & first))


h_povm_samples.uses_rng = True


def z3_vars(e):
    seen, out, todo = set(), set(), [e]
    while todo:
        x = todo.pop()
        if x.get_id() in seen:
            continue
        seen.add(x.get_id())
        if z3.is_const(x) and x.decl().kind() == z3.Z3_OP_UNINTERPRETED:
            out.add(x)
        todo.extend(x.children())
    return out


h_random_circuit.uses_rng = True


# ------------------------------------------------------------------ uniformity by fibre counting (custom jobs)
def _sampler_paths(packages, rec, N, which):
    def thunk(env):
        M = Mods(env)
        return M.ut.random_clifford(N) if which == 'random_clifford' else M.ut.random_pauli(N)
    return explore.collect_paths(thunk, packages, rec)


def _layout(N, which):
    """coin positions: per random_pair(n) call 2n (g1) + 2n (g2) + 2n (redraw); returns (used positions, first-g1 groups, total)"""
    used, firsts, pos = [], [], 0
    levels = list(range(N, 0, -1)) if which == 'random_clifford' else [1] * N
    for n in levels:
        firsts.append(list(range(pos, pos + 2 * n)))
        used += list(range(pos, pos + 4 * n))
        pos += 6 * n
    return used, firsts, pos


def _instance(paths, N, tag, layout):
    """fresh coin vector c and the relation  accepted(c) and table(c) == T  as z3 terms"""
    used, firsts, total = layout
    c = [z3.BitVec('%s_%d' % (tag, i), 1) for i in range(total)]
    names = paths[0]['coins']
    assert len(names) == total, (len(names), total)
    sub = [(names[i].e, c[i]) for i in range(total)]
    accepted = z3.And(*[z3.Or(*[c[i] == 1 for i in grp]) for grp in firsts])
    rows = []          # per path: (pc, table bits)
    for p in paths:
        pc = z3.And(*[z3.substitute(x, *sub) for x in p['pc'] + p['assumed']]) if (p['pc'] + p['assumed']) else z3.BoolVal(True)
        bits = []
        for x in np.asarray(p['value'], dtype=object).reshape(-1):
            x = to_int(x)
            bits.append(z3.substitute(x.e, *sub) if is_sym(x) else z3.BitVecVal(int(x), 1))
        rows.append((pc, bits))
    return c, accepted, rows


def _equals(rows, T):
    return z3.Or(*[z3.And(pc, *[b == t for b, t in zip(bits, T)]) for pc, bits in rows])


def u_pigeonhole(job, packages, rec):
    """no K+1 pairwise different accepted coin vectors give the same table (K = T/|Sp|); with range in Sp this makes
    every table have exactly K preimages"""
    N, which = job['params']['N'], job['params']['which']
    paths = _sampler_paths(packages, rec, N, which)
    layout = _layout(N, which)
    used, firsts, total = layout
    Tacc = 1
    for grp in firsts:
        n2 = len(grp)
        Tacc *= (2 ** n2 - 1) * 2 ** n2
    nsp = SP[N] if which == 'random_clifford' else 6 ** N
    K = Tacc // nsp
    rec['notes'] = dict(paths=len(paths), accepted=Tacc, tables=nsp, K=K, coins=total, used=len(used))
    assert Tacc % nsp == 0
    T = [z3.BitVec('T_%d' % i, 1) for i in range(4 * N * N)]
    cons = []
    copies = []
    for j in range(K + 1):
        c, acc, rows = _instance(paths, N, 'c%d' % j, layout)
        cons += [acc, _equals(rows, T)]
        copies.append(c)
    for a in range(K + 1):
        for b in range(a + 1, K + 1):
            cons.append(z3.Or(*[copies[a][i] != copies[b][i] for i in used]))
    s, r = explore.solve_query(rec, 'no_%d_distinct_accepted_coin_vectors_share_a_table' % (K + 1), cons, job.get('timeout_s', 600), 'unsat')
    if r == 'sat':
        m = s.model()
        vecs = [[m.eval(ci, model_completion=True).as_long() for ci in c] for c in copies]
        cex = dict(property='C16', harness=list(job['harness']), params=job['params'], label=job['label'], goal='uniformity', kind='fibre_too_large',
                   inputs=dict(coin_vectors=vecs, used=used, K=K), tags={}, notes=[])
        path = explore.write_replay(os.path.join(explore.VERIF, 'replays'), cex)
        rp = explore.replay_file(path, timeout=1800)
        if rp.get('status') == 'reproduced':
            rec['violations'].append(dict(goal='uniformity', replay=path, inputs=cex['inputs']))
        else:
            rec['errors'].append('non-uniformity witness did not reproduce on the real build (%s): %s' % (rp.get('status'), path))
    # vacuity / witness: K distinct preimages of one table exist
    cons2 = []
    copies = []
    for j in range(K):
        c, acc, rows = _instance(paths, N, 'd%d' % j, layout)
        cons2 += [acc, _equals(rows, T)]
        copies.append(c)
    for a in range(K):
        for b in range(a + 1, K):
            cons2.append(z3.Or(*[copies[a][i] != copies[b][i] for i in used]))
    s2, r2 = explore.solve_query(rec, 'some_table_has_%d_distinct_preimages' % K, cons2, job.get('timeout_s', 600), 'sat')
    if r2 == 'sat':
        rec['vacuity_witnesses'] += 1
    elif r2 == 'unsat':
        rec['errors'].append('vacuous: no table has K preimages')


u_pigeonhole.custom = True


def u_reachable(job, packages, rec):
    """every listed table has K pairwise different accepted coin preimages (necessary for uniformity; sat expected)"""
    N, which, tables, K = job['params']['N'], job['params']['which'], job['params']['tables'], job['params']['K']
    paths = _sampler_paths(packages, rec, N, which)
    layout = _layout(N, which)
    used = layout[0]
    insts = [_instance(paths, N, 'c%d' % j, layout) for j in range(K)]
    base = []
    for a in range(K):
        base.append(insts[a][1])
        for b in range(a + 1, K):
            base.append(z3.Or(*[insts[a][0][i] != insts[b][0][i] for i in used]))
    missing = []
    for tab in tables:
        T = [z3.BitVecVal(int(v), 1) for row in tab for v in row]
        cons = base + [_equals(inst[2], T) for inst in insts]
        s, r = explore.solve_query(rec, 'table_%s_has_%d_preimages' % (''.join(str(v) for row in tab for v in row), K), cons, job.get('timeout_s', 300), 'sat')
        if r == 'sat':
            rec['vacuity_witnesses'] += 1
        elif r == 'unsat':
            missing.append(tab)
    if missing:
        cex = dict(property='C16', harness=list(job['harness']), params=dict(N=N, which=which), label=job['label'], goal='reachability', kind='unreachable_tables',
                   inputs=dict(tables=missing, K=K, nsp=SP[N] if which == 'random_clifford' else 6 ** N), tags={}, notes=[])
        path = explore.write_replay(os.path.join(explore.VERIF, 'replays'), cex)
        rp = explore.replay_file(path, timeout=1800)
        if rp.get('status') == 'reproduced':
            rec['violations'].append(dict(goal='reachability', replay=path, inputs=dict(n_missing=len(missing), example=missing[0])))
        else:
            rec['errors'].append('unreachable tables not confirmed on the real build (%s): %s' % (rp.get('status'), path))


u_reachable.custom = True


def custom_judge(cex):
    """concrete confirmation on the real build of the two kinds of uniformity counterexamples"""
    import warnings
    warnings.filterwarnings('ignore')
    ut = explore.real_modules('pyclifford', 'utils')
    N, which = cex['params']['N'], cex['params']['which']
    f = ut.random_clifford if which == 'random_clifford' else ut.random_pauli
    if cex['kind'] == 'unreachable_tables':
        # under uniformity each table has probability 1/nsp; draw M samples so that the listed set expects >= 40 hits
        tabs = set(tuple(int(v) for row in t for v in row) for t in cex['inputs']['tables'])
        nsp = cex['inputs']['nsp']
        M = int(min(3_000_000, max(20000, 40 * nsp / max(1, len(tabs)))))
        explore.seed_all(None, 12345)
        hits = 0
        for _ in range(M):
            if tuple(int(v) for v in np.asarray(f(N)).reshape(-1)) in tabs:
                hits += 1
        expected = M * len(tabs) / nsp
        ok = expected >= 30 and hits == 0
        return dict(status='reproduced' if ok else 'not-reproduced', samples=M, hits=hits, expected_under_uniformity=round(expected, 1))
    if cex['kind'] == 'fibre_too_large':
        # force each coin vector on numba's generator by seed search (the draw pattern of random_pair is replicated)
        import numba
        vecs, used = cex['inputs']['coin_vectors'], cex['inputs']['used']
        levels = list(range(N, 0, -1)) if which == 'random_clifford' else [1] * N
        sizes = []
        for n in levels:
            sizes += [2 * n, 2 * n]        # g1, g2 (no redraw on accepted vectors)

        @numba.njit
        def search(target, sizes, limit):
            for s in range(limit):
                np.random.seed(s)
                k = 0
                ok = True
                for sz in sizes:
                    d = np.random.randint(0, 2, sz)
                    for i in range(sz):
                        if d[i] != target[k]:
                            ok = False
                        k += 1
                if ok:
                    return s
            return -1
        tables = []
        for v in vecs:
            tgt = np.array([v[i] for i in used], dtype=np.int64)
            sd = search(tgt, np.array(sizes, dtype=np.int64), 1 << min(len(used) + 4, 30))
            if sd < 0:
                return dict(status='not-reproduced', detail='no seed found for a coin vector')
            explore.seed_all(None, int(sd))
            tables.append(tuple(int(x) for x in np.asarray(f(N)).reshape(-1)))
        distinct_inputs = len(set(tuple(v[i] for i in used) for v in vecs))
        ok = len(set(tables)) == 1 and distinct_inputs == len(vecs) and len(vecs) > cex['inputs']['K']
        return dict(status='reproduced' if ok else 'not-reproduced', tables=len(set(tables)), vectors=distinct_inputs)
    return dict(status='not-reproduced', detail='unknown kind')


def diag_tables(S_list):
    out = []
    for S in S_list:
        T = [[0] * 6 for _ in range(6)]
        T[0][1] = 1       # first pair (Z0, X0): row 0 = g1 = Z, row 1 = g2 = X  -- any fixed first pair would do
        T[1][0] = 1
        for i in range(4):
            for j in range(4):
                T[2 + i][2 + j] = S[i][j]
        out.append(T)
    return out


def jobs(tier):
    from .c04 import symplectic_tables
    J = []
    for N in (1, 2, 3):
        J.append(dict(harness=('c16', 'h_random_pair'), params=dict(N=N)))
        J.append(dict(harness=('c16', 'h_random_table'), params=dict(N=N, which='random_pauli')))
        J.append(dict(harness=('c16', 'h_random_table'), params=dict(N=N, which='random_clifford'), timeout_s=600, cost=10 * N, max_paths=5000))
    for N in (1, 2):
        for which in ('random_pauli_map', 'random_clifford_map'):
            J.append(dict(harness=('c16', 'h_random_table'), params=dict(N=N, which=which), timeout_s=600, cost=10))
        for which in ('random_clifford', 'random_pauli'):
            J.append(dict(harness=('c16', 'u_pigeonhole'), params=dict(N=N, which=which), timeout_s=900, cost=50))
    for which in ('random_pauli', 'random_clifford', 'random_pauli_map', 'random_clifford_map', 'random_pauli_state', 'random_clifford_state'):
        J.append(dict(harness=('c16', 'h_two_samples'), params=dict(N=1, which=which), timeout_s=300, cost=5))
    for which in ('random_pauli', 'random_clifford') + (('random_clifford_map', 'random_clifford_state') if tier == 'thorough' else ()):
        J.append(dict(harness=('c16', 'h_two_samples'), params=dict(N=2, which=which), timeout_s=600, cost=40, max_paths=8000))
    # measurement coins are fair (the Born-rule harness of C06: undetermined outcomes are a bijective function of their
    # coin, log2prob counts them, the post-state is stabilized by the reported outcome), pure and mixed states
    for N in (1, 2):
        for r in range(N + 1):
            J.append(dict(harness=('tableau', 'h_measure'), params=dict(N=N, r=r, L=1, goals='born'), timeout_s=300, cost=10))
    J.append(dict(harness=('tableau', 'h_measure'), params=dict(N=2, r=1, L=2, goals='born'), timeout_s=300, cost=20))
    for which in ('onsite', 'global', 'brickwall'):
        for cls in ('CliffordCircuit', 'Circuit'):
            if which == 'global' and cls == 'Circuit':
                continue
            J.append(dict(harness=('c16', 'h_povm_samples'), params=dict(N=2 if which != 'onsite' else 1, which=which, cls=cls), timeout_s=900, cost=60, max_paths=5000))
    N = 2
    for r in range(N + 1):
        for which in ('onsite', 'global', 'brickwall'):
            for direction in ('forward', 'backward'):
                if which != 'onsite' and r == 1 and direction == 'backward':
                    continue
                J.append(dict(harness=('c16', 'h_random_circuit'), params=dict(N=N, r=r, which=which, direction=direction), timeout_s=900, cost=60, max_paths=5000))
    tabs2 = symplectic_tables(2)
    for k in range(0, 720, 90):
        J.append(dict(harness=('c16', 'u_reachable'), params=dict(N=2, which='random_clifford', tables=tabs2[k:k + 90], K=4), timeout_s=300, cost=30,
                      label='u_reachable[N=2, tables %d..%d, K=4]' % (k, k + 89)))
    d3 = diag_tables(tabs2)
    step = 45 if tier == 'thorough' else 90
    for k in range(0, 720, step):
        sel = d3[k:k + step] if tier == 'thorough' else d3[k:k + step:6]
        J.append(dict(harness=('c16', 'u_reachable'), params=dict(N=3, which='random_clifford', tables=sel, K=8 if tier == 'thorough' else 1), timeout_s=600, cost=80,
                      label='u_reachable[N=3, diag(1,S) tables %d.., K=%d]' % (k, 8 if tier == 'thorough' else 1)))
    if tier == 'thorough':
        J.append(dict(harness=('c16', 'u_pigeonhole'), params=dict(N=3, which='random_clifford'), timeout_s=1800, wall_s=2400, cost=500, claimed=False,
                      label='stretch:u_pigeonhole{"N": 3}'))
        J.append(dict(harness=('c16', 'u_pigeonhole'), params=dict(N=3, which='random_pauli'), timeout_s=1200, cost=100))
    return J
