"""C17  copy is faithful and independent; queries have no side effects."""
import itertools
import numpy as np
from .common import *
from .tableau import sym_state, mk_state
from .circuits import make_gates

CLASS_LAYER = ['copy of Pauli / PauliList / PauliMonomial / PauliPolynomial / CliffordMap / StabilizerState / CliffordGate / CliffordLayer / CliffordCircuit',
               'StabilizerState.expect/entropy/sample/get_prob/density_matrix/to_map/to_qutip/__repr__/tokenize/stabilizers',
               'CliffordMap.compose/inverse/to_state/__repr__', 'Pauli/PauliList __repr__/tokenize/trace/weight/@', 'diagonalize', 'stabilizer_state',
               'rotate_by / transform_by / measure / gate.forward / gate.backward (arguments)']
TV_KERNELS = ['clifford_rotate', 'stabilizer_measure', 'z2rank', 'stabilizer_expect', 'stabilizer_projection_trace', 'pauli_combine']
BOUNDS = {'quick': 'contents of receiver and arguments symbolic, N<=2 (printing N=1), every listed method once per operand type; circuits: every 2- and 3-gate placement shape at N<=3 copied, then either party takes one more gate on every placement',
          'thorough': 'N<=3 for array-valued queries'}
OUTSIDE = 'methods not in the property\'s list; N beyond the bound'
ASSUMPTIONS = ['states satisfy Inv, maps are valid where the method requires it']
STUBS = ['numpy.random -> fresh solver variables; qutip -> exact stand-in']

IMMUTABLE = (int, float, complex, str, bytes, bool, type(None), np.integer, np.floating, np.bool_, np.complexfloating)


def mutable_ids(obj, seen=None, depth=0):
    """ids of all mutable objects reachable from obj (arrays by their base buffer)"""
    from symclif.values import SV, SC, SDyad
    if seen is None:
        seen = {}
    if isinstance(obj, IMMUTABLE) or isinstance(obj, (SV, SC, SDyad)) or depth > 12:
        return seen
    if isinstance(obj, tuple):
        for x in obj:
            mutable_ids(x, seen, depth + 1)
        return seen
    if isinstance(obj, np.ndarray):
        base = obj
        while isinstance(base.base, np.ndarray):
            base = base.base
        seen[id(base)] = ('array', obj.shape)
        return seen
    if id(obj) in seen:
        return seen
    if isinstance(obj, (list, set)):
        seen[id(obj)] = (type(obj).__name__, len(obj))
        for x in obj:
            mutable_ids(x, seen, depth + 1)
        return seen
    if isinstance(obj, dict):
        seen[id(obj)] = ('dict', len(obj))
        for x in obj.values():
            mutable_ids(x, seen, depth + 1)
        return seen
    if hasattr(obj, '__dict__') and not isinstance(obj, type) and not callable(obj):
        seen[id(obj)] = (type(obj).__name__, 0)
        for v in vars(obj).values():
            mutable_ids(v, seen, depth + 1)
    return seen


def shares_nothing(a, b):
    ia, ib = mutable_ids(a), mutable_ids(b)
    common = set(ia) & set(ib)
    arrays_a = [x for x in _arrays(a)]
    arrays_b = [x for x in _arrays(b)]
    mem = any(np.shares_memory(x, y) for x in arrays_a for y in arrays_b if x.size and y.size)
    return (not common) and (not mem)


def _arrays(obj, out=None, seen=None, depth=0):
    from symclif.values import SV, SC, SDyad
    if out is None:
        out, seen = [], set()
    if isinstance(obj, IMMUTABLE) or isinstance(obj, (SV, SC, SDyad)) or depth > 12 or id(obj) in seen:
        return out
    seen.add(id(obj))
    if isinstance(obj, np.ndarray):
        out.append(obj)
    elif isinstance(obj, (list, tuple, set)):
        for x in obj:
            _arrays(x, out, seen, depth + 1)
    elif isinstance(obj, dict):
        for x in obj.values():
            _arrays(x, out, seen, depth + 1)
    elif hasattr(obj, '__dict__') and not isinstance(obj, type) and not callable(obj):
        for v in vars(obj).values():
            _arrays(v, out, seen, depth + 1)
    return out


def fields(obj):
    """denotation of a Pauli-like object as a flat list of scalars"""
    out = []
    for name in ('g', 'p', 'c', 'gs', 'ps', 'cs', 'r'):
        if hasattr(obj, name) and name in vars(obj):
            v = getattr(obj, name)
            out += snapshot(v) if isinstance(v, np.ndarray) else [v]
    return out


def same_fields(a, b):
    fa, fb = fields(a), fields(b)
    return len(fa) == len(fb) and AND(eq(x, y) for x, y in zip(fa, fb)) if len(fa) == len(fb) else False


def make_object(env, M, N, kind, tag=''):
    """a symbolic object of the given kind (contents symbolic, valid where required)"""
    if kind == 'Pauli':
        return M.pa.Pauli(env.bits(tag + 'g', (2 * N,)), env.phases(tag + 'p', (1,))[0])
    if kind == 'PauliList':
        return M.pa.PauliList(env.bits(tag + 'gs', (2, 2 * N)), env.phases(tag + 'ps', (2,)))
    if kind == 'PauliMonomial':
        from .c07 import _coef
        cr, ci = env.ints(tag + 'c_re', (1,), 0, 6), env.ints(tag + 'c_im', (1,), 0, 6)
        return M.pa.PauliMonomial(env.bits(tag + 'g', (2 * N,)), env.phases(tag + 'p', (1,))[0]).set_c(_coef(env, cr[0] - 3, ci[0] - 3))
    if kind == 'PauliPolynomial':
        from .c07 import _coef_array
        cr, ci = env.ints(tag + 'c_re', (2,), 0, 6), env.ints(tag + 'c_im', (2,), 0, 6)
        return M.pa.PauliPolynomial(env.bits(tag + 'gs', (2, 2 * N)), env.phases(tag + 'ps', (2,))).set_cs(_coef_array(env, [(cr[k] - 3, ci[k] - 3) for k in range(2)]))
    if kind == 'CliffordMap':
        g = env.bits(tag + 'map', (2 * N, 2 * N))
        env.assume(ref.symplectic(g), 'map valid')
        return M.st.CliffordMap(g, env.signs(tag + 'map_sign', (2 * N,)))
    if kind.startswith('StabilizerState'):
        r = int(kind[-1]) if kind[-1].isdigit() else 0
        gs, ps = sym_state(env, N, tag + 's')
        return mk_state(M, env, gs, ps, r)
    raise KeyError(kind)


def h_copy(env, N, kind):
    M = Mods(env)
    obj = make_object(env, M, N, kind)
    before = fields(obj)
    res = env.run(lambda: obj.copy())
    env.goal('no_exception', b_not(res.raised))
    if res.value is None:
        return
    cp = res.value
    env.goal('same_type', type(cp) is type(obj))
    env.goal('same_denotation', same_fields(cp, obj))
    env.goal('original_unchanged', unchanged(before, fields(obj)))
    env.goal('shares_no_mutable_data', shares_nothing(cp, obj))
    # history: overwrite every array of the copy with fresh values, the original keeps its terms (and vice versa)
    for a in _arrays(cp):
        if a.size:
            a.reshape(-1)[0] = (a.reshape(-1)[0] + 1) if not isinstance(a.reshape(-1)[0], (bool, np.bool_)) else True
    env.goal('original_unaffected_by_writes_to_copy', unchanged(before, fields(obj)))


def h_copy_circuit(env, N, places, extra, who):
    """copy a circuit, then let `who` (copy / original) take one more gate: the other party's gates, layering and
    action are unchanged, and nothing mutable is shared"""
    M = Mods(env)
    prog = [['gen', q] for q in places] + [['gen', extra]]
    gates, tables, _ = make_gates(env, M, N, prog)
    circ = M.ci.CliffordCircuit(N)
    for g in gates[:-1]:
        circ.take(g)
    circ.compile() if len(places) % 2 == 0 else None
    res = env.run(lambda: circ.copy())
    env.goal('no_exception', b_not(res.raised))
    if res.value is None:
        return
    cp = res.value
    env.goal('shares_no_mutable_data', shares_nothing(cp, circ))
    lay = lambda c: [[tuple(g.qubits) for g in l.gates] for l in c.layers_forward()]
    layb = lambda c: [[tuple(g.qubits) for g in l.gates] for l in c.layers_backward()]
    env.goal('same_layout', lay(cp) == lay(circ) and layb(cp) == layb(circ))
    env.goal('compiled_maps_copied', (circ.forward_map is None) == (cp.forward_map is None) and
             (circ.forward_map is None or b_and(arr_eq(cp.forward_map.gs, circ.forward_map.gs), arr_eq(cp.forward_map.ps, circ.forward_map.ps)) is not False))
    taker, other = (cp, circ) if who == 'copy' else (circ, cp)
    before_f, before_b = lay(other), layb(other)
    r2 = env.run(lambda: taker.take(gates[-1]))
    env.goal('take_no_exception', b_not(r2.raised))
    env.goal('other_party_layout_unchanged', lay(other) == before_f and layb(other) == before_b)
    env.goal('taker_has_the_gate', sum(len(l) for l in lay(taker)) == len(places) + 1 and sum(len(l) for l in layb(taker)) == len(places) + 1)
    # action of the other party is still the original program
    other.forward_map = None
    other.backward_map = None
    for l in other.layers_forward():
        l.forward_map = None
        l.backward_map = None
    gs = env.bits('in', (1, 2 * N))
    ps = env.phases('in_ps', (1,))
    o = M.pa.PauliList(gs.copy(), ps.copy())
    r3 = env.run(lambda: other.forward(o))
    env.goal('forward_no_exception', b_not(r3.raised))
    if r3.value is not None:
        g, p = gs[0], ps[0]
        for t in tables[:-1]:
            g, p = ref.ref_transform(g, p, t[0], t[1])
        env.goal('other_party_action_unchanged', b_and(arr_eq(o.gs[0], g), eq(o.ps[0], p)))


def h_copy_gate_layer(env, N, kind):
    M = Mods(env)
    prog = [['gen', [0]], ['fmap', [N - 1]]] if N > 1 else [['gen', [0]]]
    gates, _, assumptions = make_gates(env, M, N, prog)
    for a in assumptions:
        env.assume(a, 'map valid')
    if kind == 'gate':
        obj = gates[-1].compile()
    else:
        obj = M.ci.CliffordLayer(*gates).compile(N)
    res = env.run(lambda: obj.copy())
    env.goal('no_exception', b_not(res.raised))
    if res.value is None:
        return
    cp = res.value
    env.goal('shares_no_mutable_data', shares_nothing(cp, obj))
    fa = [x for a in _arrays(obj) for x in snapshot(a)]
    fb = [x for a in _arrays(cp) for x in snapshot(a)]
    env.goal('same_contents_including_compiled_maps', len(fa) == len(fb) and AND(eq(x, y) for x, y in zip(fa, fb)) is not False and
             (len(fa) != len(fb) or AND(eq(x, y) for x, y in zip(fa, fb))))
    if kind == 'gate':
        env.goal('qubits', tuple(cp.qubits) == tuple(obj.qubits))
        env.goal('maps_present', (cp.forward_map is not None) and (cp.backward_map is not None))
    else:
        env.goal('gates', [tuple(g.qubits) for g in cp.gates] == [tuple(g.qubits) for g in obj.gates])
        env.goal('maps_present', (cp.forward_map is not None) and (cp.backward_map is not None))


QUERIES = {
    # name: (receiver kind, argument kinds, call)
    'expect_list': ('StabilizerState', ['PauliListH'], lambda M, s, a: s.expect(a[0])),
    'expect_pauli': ('StabilizerState', ['Pauli'], lambda M, s, a: s.expect(a[0])),
    'expect_poly': ('StabilizerState', ['PauliPolynomial'], lambda M, s, a: s.expect(a[0])),
    'expect_state': ('StabilizerState', ['StabilizerState1'], lambda M, s, a: s.expect(a[0])),
    'entropy': ('StabilizerState1', [], lambda M, s, a: s.entropy([0])),
    # region arguments handed over as the caller's own arrays / lists (they must come back untouched)
    'entropy_mask_first': ('StabilizerState1', ['mask:first'], lambda M, s, a: s.entropy(a[0])),
    'entropy_mask_most': ('StabilizerState1', ['mask:most'], lambda M, s, a: s.entropy(a[0])),
    'entropy_mask_all': ('StabilizerState1', ['mask:all'], lambda M, s, a: s.entropy(a[0])),
    'entropy_index_array': ('StabilizerState1', ['idx:array'], lambda M, s, a: s.entropy(a[0])),
    'entropy_index_list': ('StabilizerState1', ['idx:list'], lambda M, s, a: s.entropy(a[0])),
    'entropy_mask_most_pure': ('StabilizerState', ['mask:most'], lambda M, s, a: s.entropy(a[0])),
    'entropy_mask_all_pure': ('StabilizerState', ['mask:all'], lambda M, s, a: s.entropy(a[0])),
    'sample': ('StabilizerState', [], lambda M, s, a: s.sample(2)),
    'get_prob': ('StabilizerState', ['bits'], lambda M, s, a: s.get_prob(a[0])),
    'density_matrix': ('StabilizerState', [], lambda M, s, a: s.density_matrix),
    'to_map': ('StabilizerState', [], lambda M, s, a: s.to_map()),
    'to_qutip': ('StabilizerState1', [], lambda M, s, a: s.to_qutip()),
    'tokenize_state': ('StabilizerState', [], lambda M, s, a: s.tokenize()),
    'stabilizers': ('StabilizerState1', [], lambda M, s, a: s.stabilizers),
    'diagonalize_state': ('StabilizerState', [], lambda M, s, a: M.ci.diagonalize(s)),
    'compose': ('CliffordMap', ['CliffordMap'], lambda M, s, a: s.compose(a[0])),
    'inverse': ('CliffordMap', [], lambda M, s, a: s.inverse()),
    'to_state': ('CliffordMap', [], lambda M, s, a: s.to_state()),
    'matmul': ('Pauli', ['Pauli'], lambda M, s, a: s @ a[0]),
    'poly_matmul': ('PauliPolynomial', ['PauliPolynomial'], lambda M, s, a: s @ a[0]),
    'poly_add': ('PauliPolynomial', ['PauliPolynomial'], lambda M, s, a: s + a[0]),
    'poly_reduce': ('PauliPolynomial', [], lambda M, s, a: s.reduce()),
    'neg': ('PauliList', [], lambda M, s, a: -s),
    'rmul': ('Pauli', [], lambda M, s, a: 1j * s),
    'tokenize': ('PauliList', [], lambda M, s, a: s.tokenize()),
    'trace': ('PauliList', [], lambda M, s, a: s.trace()),
    'weight': ('PauliList', [], lambda M, s, a: s.weight()),
    'as_polynomial': ('PauliList', [], lambda M, s, a: s.as_polynomial().reduce()),
    'getitem': ('PauliList', [], lambda M, s, a: s[0]),
    'diagonalize_pauli': ('Pauli', [], lambda M, s, a: M.ci.diagonalize(s)),
    'stabilizer_state': (None, ['PauliListC'], lambda M, s, a: M.st.stabilizer_state(a[0])),
    # objects constructed FROM an operator own their data (no memory shared with the argument)
    'rotation_gate': (None, ['PauliGnz'], lambda M, s, a: M.ci.clifford_rotation_gate(a[0])),
    'rotation_map': (None, ['PauliGnz'], lambda M, s, a: M.st.clifford_rotation_map(a[0])),
    'as_polynomial_pauli': ('Pauli', [], lambda M, s, a: s.as_polynomial()),
    'as_list_weight': ('Pauli', [], lambda M, s, a: s.weight()),
    'list_weight': ('PauliList', [], lambda M, s, a: s.weight()),
    'row_weight': ('PauliList', [], lambda M, s, a: s[0].weight()),
    'neg_weight': ('Pauli', [], lambda M, s, a: (-s).weight()),
    # in-place operations: the receiver changes, the arguments must not
    'rotate_by': ('StabilizerState1', ['PauliG'], lambda M, s, a: s.rotate_by(a[0])),
    'transform_by': ('PauliList', ['CliffordMap'], lambda M, s, a: s.transform_by(a[0])),
    'measure': ('StabilizerState1', ['PauliListH1'], lambda M, s, a: s.measure(a[0])),
    'measure_state': ('StabilizerState1', ['StabilizerState'], lambda M, s, a: s.measure(a[0])),
    'postselect': ('StabilizerState', ['PauliG'], lambda M, s, a: s.postselect(a[0], 1)),
}
INPLACE = ('rotate_by', 'transform_by', 'measure', 'measure_state', 'postselect')


def _arg(env, M, N, kind, tag):
    if kind.startswith('mask:'):
        pat = {'first': [True] + [False] * (N - 1), 'most': [True] * (N - 1) + [False] if N > 1 else [True], 'all': [True] * N}[kind[5:]]
        return np.array(pat, dtype=bool)
    if kind == 'idx:array':
        return np.array([N - 1, 0] if N > 1 else [0])
    if kind == 'idx:list':
        return [N - 1, 0] if N > 1 else [0]
    if kind == 'bits':
        return env.bits(tag + 'bits', (N,))
    if kind in ('PauliListH', 'PauliListH1', 'PauliListC'):
        L = 1 if kind == 'PauliListH1' else 2
        g = env.bits(tag + 'gs', (L, 2 * N))
        if kind == 'PauliListC':
            if N < 2:
                L = 1
                g = g[:1]
            for a in range(L):
                for b in range(a + 1, L):
                    env.assume(b_not(ref.ref_anti(g[a], g[b])), 'commuting')
                    env.assume(b_not(arr_eq(g[a], g[b])), 'independent')
                env.assume(b_not(arr_eq(g[a], [0] * (2 * N))), 'independent')
        return M.pa.PauliList(g, env.signs(tag + 'sign', (L,)))
    if kind == 'PauliG':
        return M.pa.Pauli(env.bits(tag + 'g', (2 * N,)), env.signs(tag + 'sign', (1,))[0])
    if kind == 'PauliGnz':
        g = env.bits(tag + 'g', (2 * N,))
        env.assume(b_not(arr_eq(g, [0] * (2 * N))), 'generator is not the identity')
        return M.pa.Pauli(g, env.signs(tag + 'sign', (1,))[0])
    return make_object(env, M, N, kind, tag)


def h_query(env, N, name):
    M = Mods(env)
    rk, aks, call = QUERIES[name]
    recv = make_object(env, M, N, rk, 'recv_') if rk else None
    args = [_arg(env, M, N, k, 'arg%d_' % i) for i, k in enumerate(aks)]
    snap_r = fields(recv) if recv is not None else []
    plain = lambda a: isinstance(a, (np.ndarray, list))
    snap_a = [fields(a) if not plain(a) else snapshot(a) for a in args]
    res = env.run(lambda: call(M, recv, args))
    env.goal('no_exception', b_not(res.raised))
    if recv is not None and name not in INPLACE:
        env.goal('receiver_unchanged', unchanged(snap_r, fields(recv)))
    for i, a in enumerate(args):
        env.goal('argument%d_unchanged' % i, unchanged(snap_a[i], fields(a) if not plain(a) else snapshot(a)))
    # results of queries share no memory with receiver / arguments (a later write to the result must not leak back)
    if res.value is not None and name not in INPLACE and name not in ('stabilizers', 'getitem', 'neg', 'rmul', 'as_polynomial', 'as_polynomial_pauli'):
        parties = ([recv] if recv is not None else []) + [a for a in args if not isinstance(a, list)]
        env.goal('result_shares_no_memory', all(shares_nothing_arrays(res.value, p) for p in parties))


def shares_nothing_arrays(a, b):
    xs, ys = _arrays(a), _arrays(b)
    return not any(np.shares_memory(x, y) for x in xs for y in ys if x.size and y.size)


h_query.uses_rng = True


def h_repr(env, N, kind):
    """printing leaves the object unchanged (the parser/printer round trip itself is C20)"""
    M = Mods(env)
    obj = make_object(env, M, N, kind)
    before = fields(obj)
    res = env.run(lambda: repr(obj))
    env.goal('no_exception', b_not(res.raised))
    env.goal('returns_text', isinstance(res.value, str))
    env.goal('unchanged', unchanged(before, fields(obj)))


def h_alias_ops(env, N, which, r=0):
    """in-place operations whose argument shares storage with the receiver still act as specified"""
    M = Mods(env)
    if which == 'rotate_by_own_row':
        gs = env.bits('gs', (3, 2 * N))
        ps = env.signs('ps', (3,))
        lst = M.pa.PauliList(gs.copy(), ps.copy())
        res = env.run(lambda: lst.rotate_by(lst[1]))
        env.goal('no_exception', b_not(res.raised))
        if res.value is not None:
            for j in range(3):
                ge, pe = ref.ref_rotate(gs[1], ps[1], gs[j], ps[j])
                env.goal('row%d' % j, b_and(arr_eq(lst.gs[j], ge), eq(lst.ps[j], pe)))
    elif which in ('rotate_result_of_inverse', 'rotate_result_of_compose', 'rotate_result_of_to_map'):
        # objects handed out by queries are ordinary objects: an in-place rotation of the returned map really changes it
        # (whatever memory layout the query left it in), and leaves the object it was derived from alone
        from .c04 import family_map, S_
        mg, mp, ok = family_map(env, 'map', N, 'valid' if N == 1 else 'rotation')
        env.assume(ok, 'map valid')
        m = M.st.CliffordMap(S_(env, mg), S_(env, mp))
        made = env.run({'rotate_result_of_inverse': lambda: m.inverse(), 'rotate_result_of_compose': lambda: m.compose(m),
                        'rotate_result_of_to_map': lambda: m.to_state().to_map()}[which])
        env.goal('query_no_exception', b_not(made.raised))
        if made.value is not None:
            out = made.value
            g0, p0 = snapshot(out.gs), snapshot(out.ps)
            rows = [oarr(g0[k * 2 * N:(k + 1) * 2 * N]) for k in range(2 * N)]
            gg = env.bits('gen', (2 * N,))
            pg = env.signs('gen_sign', (1,))[0]
            res = env.run(lambda: out.rotate_by(M.pa.Pauli(gg.copy(), pg)))
            env.goal('no_exception', b_not(res.raised))
            for k in range(2 * N):
                ge, pe = ref.ref_rotate(gg, pg, rows[k], p0[k])
                env.goal('row%d' % k, b_and(arr_eq(out.gs[k], ge), eq(out.ps[k], pe)))
            env.goal('source_map_unchanged', b_and(arr_eq(m.gs, mg), arr_eq(m.ps, mp)))
    elif which == 'measure_own_stabilizers':
        gs, ps = sym_state(env, N)
        state = mk_state(M, env, gs, ps, r)
        res = env.run(lambda: state.measure(state.stabilizers))
        env.goal('no_exception', b_not(res.raised))
        if res.value is not None:
            out, lp = res.value
            env.goal('outcomes_all_plus', AND(eq(o, 0) for o in out))
            env.goal('log2prob_zero', eq(lp, 0))
            env.goal('state_unchanged', AND([arr_eq(state.gs, gs), arr_eq(state.ps, ps), eq(state.r, r)]))
    elif which == 'measure_state_argument':
        gs, ps = sym_state(env, N)
        g2, p2 = sym_state(env, N, 't')
        state = mk_state(M, env, gs, ps, r)
        other = mk_state(M, env, g2, p2, 0)
        res = env.run(lambda: state.measure(other))
        env.goal('no_exception', b_not(res.raised))
        env.goal('argument_state_unchanged', AND([arr_eq(other.gs, g2), arr_eq(other.ps, p2), eq(other.r, 0)]))
    elif which == 'transform_by_own_map':
        gs, ps = sym_state(env, N)
        state = mk_state(M, env, gs, ps, r)
        res = env.run(lambda: state.transform_by(state.to_map()))
        env.goal('no_exception', b_not(res.raised))
        if res.value is not None:
            mg = oarr(np.empty((2 * N, 2 * N), dtype=object))
            mp = oarr(np.empty((2 * N,), dtype=object))
            for i in range(N):
                mg[2 * i], mp[2 * i] = gs[N + i], ps[N + i]
                mg[2 * i + 1], mp[2 * i + 1] = gs[i], ps[i]
            for j in range(2 * N):
                ge, pe = ref.ref_transform(gs[j], ps[j], mg, mp)
                env.goal('row%d' % j, b_and(arr_eq(state.gs[j], ge), eq(state.ps[j], pe)))


h_alias_ops.uses_rng = True


REQUERY = {
    # query on a state: result on the long-lived object after an in-place change == result on a freshly built equal object
    'expect_list': lambda M, s, a: s.expect(a),
    'entropy': lambda M, s, a: s.entropy([0]),
    'density_matrix': lambda M, s, a: (lambda d: (d.gs, d.ps, d.cs))(s.density_matrix),
    'to_map': lambda M, s, a: (lambda m: (m.gs, m.ps))(s.to_map()),
    'to_qutip': lambda M, s, a: s.to_qutip().full(),
    'tokenize': lambda M, s, a: s.tokenize(),
    'stabilizers': lambda M, s, a: (lambda t: (t.gs, t.ps))(s.stabilizers),
    'copy': lambda M, s, a: (lambda c: (c.gs, c.ps, c.r))(s.copy()),
    'repr': lambda M, s, a: repr(s),
}


MAPQUERY = {
    'inverse': lambda M, m, a: (lambda x: (x.gs, x.ps))(m.inverse()),
    'to_state': lambda M, m, a: (lambda x: (x.gs, x.ps, x.r))(m.to_state()),
    'compose': lambda M, m, a: (lambda x: (x.gs, x.ps))(m.compose(a)),
    'compose_into': lambda M, m, a: (lambda x: (x.gs, x.ps))(a.compose(m)),
    'copy': lambda M, m, a: (lambda x: (x.gs, x.ps))(m.copy()),
    'apply': lambda M, m, a: (lambda o: (o.gs, o.ps))(M.pa.PauliList(a.gs[:1].copy(), a.ps[:1].copy()).transform_by(m)),
}


def h_requery_map(env, N, name, change):
    """stale-state guard for Clifford maps: query, change the map in place (rotate_by, or a masked transform_by), query
    again -- the second answer must be the answer a freshly constructed equal map gives"""
    from .c13 import same
    M = Mods(env)
    mg = env.bits('map', (2 * N, 2 * N))
    mp = env.signs('map_sign', (2 * N,))
    env.assume(ref.symplectic(mg), 'map valid')
    m = M.st.CliffordMap(mg.copy(), mp.copy())
    ag = env.bits('other', (2 * N, 2 * N))
    ap = env.signs('other_sign', (2 * N,))
    other = M.st.CliffordMap(ag.copy(), ap.copy())
    q = MAPQUERY[name]
    first = env.run(lambda: q(M, m, other))
    env.goal('first_no_exception', b_not(first.raised))
    gg = env.bits('gen', (2 * N,))
    if change == 'rotate':
        mut = env.run(lambda: m.rotate_by(M.pa.Pauli(gg.copy(), 0)))
    else:
        mk = np.array([True] + [False] * (N - 1))
        mut = env.run(lambda: m.rotate_by(M.pa.Pauli(gg[:2].copy(), 0), mk))
    env.goal('change_no_exception', b_not(mut.raised))
    fresh = M.st.CliffordMap(m.gs.copy(), m.ps.copy())
    second = env.run(lambda: q(M, m, other))
    want = env.run(lambda: q(M, fresh, other))
    env.goal('second_no_exception', b_not(b_or(second.raised, want.raised)))
    if second.value is not None and want.value is not None:
        env.goal('second_answer_is_the_fresh_answer', same(second.value, want.value))


def h_requery(env, N, r, name, change):
    """stale-state guard: query, change the receiver in place (sign-only change = two rotations by one generator, or a
    single rotation), query again -- the second answer must be the answer a freshly constructed equal object gives"""
    from .c13 import same
    M = Mods(env)
    gs, ps = sym_state(env, N)
    state = mk_state(M, env, gs, ps, r)
    obs = M.pa.PauliList(env.bits('obs', (1, 2 * N)), env.signs('obs_sign', (1,)))
    q = REQUERY[name]
    first = env.run(lambda: q(M, state, obs))
    env.goal('first_no_exception', b_not(first.raised))
    gg = env.bits('gen', (2 * N,))
    G = M.pa.Pauli(gg.copy(), 0)
    mut = env.run((lambda: state.rotate_by(G).rotate_by(G)) if change == 'signs' else (lambda: state.rotate_by(G)))
    env.goal('change_no_exception', b_not(mut.raised))
    fresh = M.st.StabilizerState(state.gs.copy(), ps=state.ps.copy()).set_r(state.r)
    second = env.run(lambda: q(M, state, obs))
    want = env.run(lambda: q(M, fresh, obs))
    env.goal('second_no_exception', b_not(b_or(second.raised, want.raised)))
    if second.value is not None and want.value is not None:
        a, b = second.value, want.value
        if name == 'to_qutip' and not env.symbolic:
            a, b = np.asarray(a), np.asarray(b)
        env.goal('second_answer_is_the_fresh_answer', (a == b) if isinstance(a, str) else same(a, b))


h_requery.uses_rng = True


def jobs(tier):
    J = []
    for N in (1, 2):
        for kind in ('Pauli', 'PauliList', 'PauliMonomial', 'PauliPolynomial', 'CliffordMap', 'StabilizerState', 'StabilizerState1'):
            J.append(dict(harness=('c17', 'h_copy'), params=dict(N=N, kind=kind)))
        for kind in ('gate', 'layer'):
            J.append(dict(harness=('c17', 'h_copy_gate_layer'), params=dict(N=N, kind=kind), timeout_s=300, cost=10))
        for name in QUERIES:
            J.append(dict(harness=('c17', 'h_query'), params=dict(N=N, name=name), timeout_s=600, cost=10, max_paths=4000))
    for name in ('entropy_mask_most_pure', 'entropy_mask_most', 'entropy_index_array'):
        J.append(dict(harness=('c17', 'h_query'), params=dict(N=3, name=name), timeout_s=600, cost=30, max_paths=4000))
    for N in (1, 2):
        for which in ('rotate_result_of_inverse', 'rotate_result_of_compose', 'rotate_result_of_to_map'):
            J.append(dict(harness=('c17', 'h_alias_ops'), params=dict(N=N, which=which), timeout_s=300, cost=10))
    for N in (1, 2):
        J.append(dict(harness=('c17', 'h_alias_ops'), params=dict(N=N, which='rotate_by_own_row')))
        for r in range(N + 1):
            for which in ('measure_own_stabilizers', 'measure_state_argument', 'transform_by_own_map'):
                J.append(dict(harness=('c17', 'h_alias_ops'), params=dict(N=N, which=which, r=r), timeout_s=300, cost=10))
    if tier == 'thorough':
        for kind in ('Pauli', 'PauliList', 'PauliMonomial', 'PauliPolynomial', 'StabilizerState1'):
            J.append(dict(harness=('c17', 'h_copy'), params=dict(N=3, kind=kind), timeout_s=600))
        for name in ('expect_list', 'entropy', 'sample', 'to_map', 'tokenize_state', 'matmul', 'neg', 'rmul', 'tokenize', 'trace', 'weight', 'getitem', 'rotate_by', 'measure', 'diagonalize_pauli'):
            J.append(dict(harness=('c17', 'h_query'), params=dict(N=3, name=name), timeout_s=900, cost=60, max_paths=8000))
    for N in (1, 2):
        for name in REQUERY:
            if name in ('repr', 'to_qutip') and N == 2:
                continue
            for change in ('signs', 'strings'):
                for r in ((0, 1) if N == 2 else (0,)):
                    if name == 'entropy' and r == N:
                        continue
                    J.append(dict(harness=('c17', 'h_requery'), params=dict(N=N, r=r, name=name, change=change), timeout_s=600, cost=15, max_paths=6000))
    for N in (1, 2):
        for name in MAPQUERY:
            for change in ('rotate', 'masked'):
                J.append(dict(harness=('c17', 'h_requery_map'), params=dict(N=N, name=name, change=change), timeout_s=600, cost=15, max_paths=6000))
    for kind in ('Pauli', 'PauliList', 'CliffordMap', 'StabilizerState', 'StabilizerState1'):
        J.append(dict(harness=('c17', 'h_repr'), params=dict(N=1, kind=kind), max_paths=5000))
    from .c09 import tuples
    for N in (2, 3):
        for n_g in (2, 3):
            for places in itertools.product(tuples(N, 2), repeat=n_g):
                for extra in tuples(N, 2):
                    if N == 3 and n_g == 3 and tier == 'quick' and (len(extra) == 2 or sum(len(q) for q in places) > 4):
                        continue
                    for who in ('copy', 'original'):
                        J.append(dict(harness=('c17', 'h_copy_circuit'), params=dict(N=N, places=[list(q) for q in places], extra=list(extra), who=who),
                                      timeout_s=300, cost=2))
    return J
