"""C09  A circuit acts as the ordered product of its gates."""
import itertools
from .common import *
from .circuits import h_program_forward, h_packing

CLASS_LAYER = ['CliffordGate.forward/compile/copy/set_*', 'CliffordLayer.take/forward/compile/copy/independent_from',
               'CliffordCircuit.take/compose/copy/forward/compile', 'Circuit.take/forward/compile', 'H,S,X,Y,Z,CNOT,C',
               'utils.mask', 'CliffordMap.embed/compose', 'identity_map', 'clifford_rotation_map']
TV_KERNELS = ['clifford_rotate', 'pauli_transform', 'pauli_combine', 'ps0', 'z2inv']
BOUNDS = {'quick': 'program shapes (gate kind x ascending qubit tuple per gate) enumerated, gate contents and input symbolic: uncompiled N<=3 all shapes with <=2 gates of kinds {generator, forward map}; 3-gate generator programs N<=3; packing lemma on all placement shapes with <=4 gates at N<=3 and 4-gate shapes at N=4 of one- and two-qubit gates; compiled (layer / circuit) x {CliffordCircuit, Circuit} x {orig, copy, compose}: generator and named gates N<=3 <=3 gates, symbolic valid map gates on <=2 qubits with at most one two-qubit map per circuit',
          'thorough': 'plus all 3-gate shapes with map gates uncompiled, 4-gate generator programs uncompiled at N=3, compiled 4-gate named/generator programs'}
OUTSIDE = 'programs longer than the bound; N>4; circuits with two symbolic two-qubit map gates compiled (C04(d) case split covers the same-pair case); random gates (C16)'
ASSUMPTIONS = ['symbolic map gates are valid maps (canonical commutation relations, even phases); generators Hermitian',
               'reference action of a gate = homomorphic extension of its table embedded among identity wires (C03), of a generator gate = U^dagger P U (C02)',
               'named gate tables are taken from the constructed gate (their correctness is C11)']


def pre(tier):
    return dict(oracle_checked=ref.self_check(2))


def tuples(N, kmax=None):
    out = []
    for k in range(1, (kmax or N) + 1):
        out += [list(c) for c in itertools.combinations(range(N), k)]
    return out


def jobs(tier):
    J = []
    H = ('circuits', 'h_program_forward')
    # (3) uncompiled, every shape with <=2 gates of kinds gen / fmap(any table: the definition needs no validity)
    for N in (1, 2, 3):
        tp = tuples(N)
        for n_g in (1, 2):
            for places in itertools.product(tp, repeat=n_g):
                for kinds in itertools.product(('gen', 'amap'), repeat=n_g):
                    prog = [[k, q] for k, q in zip(kinds, places)]
                    J.append(dict(harness=H, params=dict(N=N, prog=prog)))
    # 3-gate generator programs, uncompiled, all placements (quick: at most one three-qubit gate per program)
    for N in (2, 3):
        for places in itertools.product(tuples(N), repeat=3):
            if tier == 'quick' and sum(len(q) == 3 for q in places) > 1:
                continue
            prog = [['gen', q] for q in places]
            J.append(dict(harness=H, params=dict(N=N, prog=prog), timeout_s=300))
    # packing lemma (structure only): all placement shapes, for both circuit classes
    P = ('circuits', 'h_packing_all')
    for cls in ('CliffordCircuit', 'Circuit'):
        for N in (2, 3):
            for n_g in (1, 2, 3, 4):
                J.append(dict(harness=P, params=dict(N=N, n_ops=n_g, cls=cls), cost=3 * n_g))
        J.append(dict(harness=P, params=dict(N=4, n_ops=4, cls=cls, kmax=2), cost=30))
    # compiled configurations
    progs = []
    for N in (2, 3):
        tp1 = tuples(N, 2)
        for places in itertools.product(tp1, repeat=3):
            if all(len(q) == 1 for q in places) and len(set(map(tuple, places))) == 3:
                continue
            progs.append((N, [['gen', q] for q in places]))
    named = [(2, [['H', [0]], ['CNOT', [0, 1]], ['S', [1]]]), (3, [['CNOT', [0, 1]], ['CNOT', [2, 1]], ['S', [0]], ['H', [0]]]),
             (3, [['H', [1]], ['C5', [1]], ['CNOT', [1, 2]], ['Y', [2]]]), (3, [['S', [2]], ['CNOT', [0, 2]], ['H', [2]], ['Z', [0]]]),
             (2, [['fmap', [0]], ['gen', [0, 1]], ['fmap', [1]]]), (2, [['fmap', [0, 1]], ['gen', [0]], ['fmap', [1]]]),
             (3, [['fmap', [1]], ['fmap', [0, 2]], ['gen', [1, 2]]]), (3, [['gen', [0, 1, 2]], ['fmap', [2]], ['H', [0]]])]
    ALLV = (('CliffordCircuit', 'orig'), ('CliffordCircuit', 'copy'), ('CliffordCircuit', 'compose'), ('Circuit', 'orig'))
    for idx, (N, prog) in enumerate(progs):
        heavy = N == 3 and sum(len(q) == 2 for _, q in prog) >= 2
        for config in ('layers', 'circuit'):
            if tier == 'quick':
                if config == 'layers' and idx % 5:
                    continue
                if config == 'circuit' and (heavy or idx % 4):
                    continue
            for cls, variant in (ALLV if (tier == 'thorough' or idx % 3 == 0) else ALLV[idx % 4:idx % 4 + 1]):
                J.append(dict(harness=H, params=dict(N=N, prog=prog, config=config, cls=cls, variant=variant), timeout_s=900, cost=30))
    for N, prog in named[:4]:
        for config in ('plain', 'layers', 'circuit'):
            J.append(dict(harness=H, params=dict(N=N, prog=prog, config=config, np_qubits=True), timeout_s=300, cost=5))
    for N, prog in named:
        heavy = N == 3 and any(k == 'fmap' and len(q) == 2 for k, q in prog)
        for config in ('plain', 'layers', 'circuit'):
            for cls, variant in ALLV:
                if tier == 'quick' and config == 'circuit' and (heavy or (any(k == 'fmap' and len(q) == 2 for k, q in prog) and variant != 'orig')):
                    continue
                J.append(dict(harness=H, params=dict(N=N, prog=prog, config=config, cls=cls, variant=variant), timeout_s=900, cost=30))
        J.append(dict(harness=H, params=dict(N=N, prog=prog, inp='state', r=1), timeout_s=300, cost=5))
    # histories around compose: compose onto an empty circuit, then extend either party / compose the block again
    for N in (2, 3):
        for n_g in (1, 2):
            for places in itertools.product(tuples(N, 2), repeat=n_g):
                for extra in tuples(N, 2)[:3 if tier == 'quick' else None]:
                    for scenario in ('extend_total', 'extend_part', 'repeat'):
                        if scenario == 'repeat' and extra != tuples(N, 2)[0]:
                            continue
                        if tier == 'quick' and N == 3 and n_g == 2 and (sum(len(q) for q in places) > 3):
                            continue
                        J.append(dict(harness=('circuits', 'h_compose_history'), params=dict(N=N, places=[list(q) for q in places], extra=list(extra), scenario=scenario),
                                      timeout_s=300, cost=5))
    if tier == 'thorough':
        for places in itertools.product(tuples(3), repeat=4):
            J.append(dict(harness=H, params=dict(N=3, prog=[['gen', q] for q in places])))
        for places in itertools.product(tuples(3), repeat=3):
            for kinds in itertools.product(('gen', 'amap'), repeat=3):
                if 'amap' in kinds:
                    J.append(dict(harness=H, params=dict(N=3, prog=[[k, q] for k, q in zip(kinds, places)])))
    return J
