"""C08  Entropy equals the von Neumann entropy of the reduced density matrix."""
import itertools
import numpy as np
from .common import *
from .tableau import sym_state, mk_state

CLASS_LAYER = ['StabilizerState.entropy', 'StabilizerState.stabilizers', 'PauliList.__getitem__', 'utils.mask']
TV_KERNELS = ['stabilizer_entropy', 'z2rank', 'acq_mat']
BOUNDS = {'quick': 'arbitrary Inv state of every rank, every subsystem given as index list and as boolean mask, N<=3; z2rank on arbitrary binary matrices up to 4x4',
          'thorough': 'same plus invariance under a symbolic rotation inside / outside the region at N=3'}
OUTSIDE = 'N>=4; torchclifford entropy (C13)'
ASSUMPTIONS = ['state satisfies Inv', 'S(rho_A) = |A| - log2 #{g in stabilizer group : supp(g) inside A} (standard stabilizer theory, trusted base); the oracle enumerates the group and shares no code with z2rank/acq_mat']


def pre(tier):
    return dict(oracle_checked=ref.self_check(2))


def _entropy_goal(env, name, value, gs, ps, r, N, mask):
    size, count = ref.ref_entropy(gs, ps, r, N, mask)
    conj = [b_and(compare('>=', value, 0), compare('<=', value, size))]
    for e in range(size + 1):
        conj.append(b_implies(eq(value, e), eq(count, 1 << (size - e))))
    env.goal(name, AND(conj))


def h_entropy(env, N, r, mask, form):
    M = Mods(env)
    gs, ps = sym_state(env, N)
    state = mk_state(M, env, gs, ps, r)
    if form == 'indices':
        sub = [i for i in range(N) if mask[i]]
    elif form == 'tuple':
        sub = tuple(i for i in range(N) if mask[i])
    elif form == 'nparray':
        sub = np.array([i for i in range(N) if mask[i]], dtype=np.int64)
    elif form == 'reversed':
        sub = [i for i in range(N) if mask[i]][::-1]
    elif form == 'negative':
        sub = [i - N for i in range(N) if mask[i]]         # numpy-style negative indices count from the last qubit
    elif form == 'boollist':
        sub = [bool(b) for b in mask]
    elif form == 'range':
        sub = range(N)
    else:
        sub = np.array(mask, dtype=bool)
    res = env.run(lambda: state.entropy(sub))
    env.goal('no_exception', b_not(res.raised))
    if res.value is not None:
        _entropy_goal(env, 'entropy', res.value, gs, ps, r, N, mask)
        if not any(mask):
            env.goal('empty_subsystem_zero', eq(res.value, 0))
        if all(mask):
            env.goal('whole_system_r', eq(res.value, r))
        if r == 0 and any(mask) and not all(mask):
            comp = [i for i in range(N) if not mask[i]]
            res2 = env.run(lambda: state.entropy(comp))
            env.goal('complement_no_exception', b_not(res2.raised))
            if res2.value is not None:
                env.goal('pure_region_equals_complement', eq(res.value, res2.value))
    env.goal('state_unchanged', AND([arr_eq(state.gs, gs), arr_eq(state.ps, ps), eq(state.r, r)]))


def h_entropy_invariance(env, N, r, mask, inside):
    """a Clifford rotation acting entirely inside (or entirely outside) the region does not change the entropy"""
    M = Mods(env)
    gs, ps = sym_state(env, N)
    state = mk_state(M, env, gs, ps, r)
    where = [m if inside else (not m) for m in mask]
    n = sum(where)
    gg = env.bits('gen', (2 * n,))
    pg = env.signs('gen_sign', (1,))[0]
    sub = [i for i in range(N) if mask[i]]
    res = env.run(lambda: state.entropy(sub))
    res2 = env.run(lambda: state.rotate_by(M.pa.Pauli(gg.copy(), pg), np.array(where, dtype=bool)).entropy(sub))
    env.goal('no_exception', b_not(b_or(res.raised, res2.raised)))
    if res.value is not None and res2.value is not None:
        env.goal('entropy_invariant', eq(res.value, res2.value))


def h_z2rank(env, nr, nc):
    M = Mods(env)
    A = env.bits('mat', (nr, nc))
    work = A.copy()
    res = env.run(lambda: M.ut.z2rank(work))
    env.goal('no_exception', b_not(res.raised))
    if res.value is not None:
        # rank = nc - log2 #{v : A v = 0}
        nker = 0
        for v in itertools.product((0, 1), repeat=nc):
            inker = AND(eq(sum((A[i, j] * v[j] for j in range(nc)), 0) % 2, 0) for i in range(nr))
            nker = nker + ite(inker, 1, 0)
        conj = [b_and(compare('>=', res.value, 0), compare('<=', res.value, min(nr, nc)))]
        for k in range(min(nr, nc) + 1):
            conj.append(b_implies(eq(res.value, k), eq(nker, 1 << (nc - k))))
        env.goal('rank', AND(conj))
        env.goal('workspace_stays_binary', ref.binary(work))


def jobs(tier):
    J = []
    for N in (1, 2, 3):
        for r in range(N + 1):
            for m in masks(N):
                forms = (['indices', 'mask', 'nparray', 'reversed', 'boollist', 'negative'] + (['range'] if all(m) else [])) if any(m) else ['indices', 'tuple', 'boollist']
                for form in forms:
                    J.append(dict(harness=('c08', 'h_entropy'), params=dict(N=N, r=r, mask=list(m), form=form),
                                  timeout_s=300, cost=(5 if N == 3 else 1), max_paths=5000))
    for nr in (1, 2, 3, 4):
        for nc in (1, 2, 3, 4):
            J.append(dict(harness=('c08', 'h_z2rank'), params=dict(nr=nr, nc=nc), cost=nr * nc))
    for N in ((2,) if tier == 'quick' else (2, 3)):
        for r in range(N + 1):
            for m in masks(N):
                if any(m) and not all(m):
                    for inside in (True, False):
                        J.append(dict(harness=('c08', 'h_entropy_invariance'), params=dict(N=N, r=r, mask=list(m), inside=inside),
                                      timeout_s=600, cost=20, max_paths=20000))
    return J
