"""C13  torchclifford computes the same results as pyclifford (port equivalence) -- translation validation, pair by pair.

Both packages are loaded from the current source: pyclifford over the numpy shim, torchclifford over the torch stand-in.
Each shared function is run in both on the SAME symbolic well-formed input and the outputs are compared."""
import itertools
import numpy as np
from .common import *
from symclif.values import parts, SV, SC, SDyad

PACKAGES = ('pyclifford', 'torchclifford')
MODULES = ('utils', 'paulialg', 'stabilizer', 'circuit')
LEVEL = 'translation_validation'
CLASS_LAYER = ['torchclifford.utils kernels', 'torchclifford.paulialg Pauli/PauliList/PauliPolynomial/pauli/paulis', 'torchclifford.stabilizer CliffordMap/StabilizerState and constructors',
               'torchclifford.circuit gates / layers / circuits']
TV_KERNELS = ['acq', 'ipow', 'ps0', 'acq_mat', 'batch_dot', 'pauli_tokenize', 'pauli_combine', 'pauli_transform', 'clifford_rotate', 'front', 'condense',
              'pauli_is_onsite', 'pauli_diagonalize1', 'map_to_state', 'state_to_map', 'stabilizer_project', 'stabilizer_expect', 'stabilizer_entropy', 'z2rank', 'aggregate']
BOUNDS = {'quick': 'N<=2, lists L<=2, every array entry / phase / sign symbolic, one obligation set per shared function pair',
          'thorough': 'N<=3 for fork-free kernels'}
OUTSIDE = 'single-precision evaluation inside torchclifford (complex64 default coefficients; 1j**p via a complex64 power is off by 1e-7, pinned by torchclifford test_PauliPolynomial): numbers are compared exactly in the encoding and to 1e-6 relative in replays on the real build; GPU devices; torch functions that need an API outside the stand-in (reported as not encoded = harness error, never as agreement); float32 rounding beyond |v| < 2**24'
ASSUMPTIONS = ['torch stand-in: tensor operations follow the PyTorch documentation on small integer-valued tensors; torch.linalg.matrix_rank is the exact rational rank',
               'inputs well formed as in the numpy package (binary strings, phases 0..3, Hermitian generators/observables, valid maps, Inv states)']
STUBS = ['torch -> tensor stand-in over numpy object arrays', 'torch.jit.script -> identity', 'torch.randint -> fresh solver variables']


def pre(tier):
    return dict(oracle_checked=ref.self_check(2))


def tt(env, a, kind='f'):
    """the same values as a tensor of the torch side"""
    if env.symbolic:
        from symclif.shim_torch import T
        arr = np.asarray(a)
        t = T(arr.astype(object).copy() if arr.dtype != bool else arr.copy())
        if arr.dtype != bool and kind in ('f', 'i'):
            t._dt = kind          # the replay builds float32 ('f') or int64 ('i') tensors: keep the stand-in's dtype class in step
        return t
    import torch
    arr = np.asarray(a)
    if kind == 'b' or arr.dtype == bool:
        return torch.tensor(arr.astype(bool))
    if kind == 'c':
        return torch.tensor(arr.astype(complex), dtype=torch.complex64)
    if kind == 'i':
        return torch.tensor(arr.astype(np.int64))
    return torch.tensor(arr.astype(np.float32))


def nn(env, x):
    """torch-side result as plain values"""
    if isinstance(x, (tuple, list)):
        return type(x)(nn(env, v) for v in x)
    if env.symbolic:
        if isinstance(x, np.ndarray):
            a = np.asarray(x)
            return a if a.ndim else a.reshape(-1)[0]
        return x
    try:
        import torch
        if torch.is_tensor(x):
            a = x.detach().cpu().numpy()
            return a if a.ndim else a.reshape(-1)[0]
    except ImportError:
        pass
    return x


def same(a, b):
    """structural equality of two results (arrays / scalars / tuples / lists of arrays)"""
    if isinstance(a, (tuple, list)) or isinstance(b, (tuple, list)):
        if not (isinstance(a, (tuple, list)) and isinstance(b, (tuple, list))) or len(a) != len(b):
            return False
        return AND(same(x, y) for x, y in zip(a, b))
    if isinstance(a, np.ndarray) or isinstance(b, np.ndarray):
        a, b = np.asarray(a), np.asarray(b)
        if a.shape != b.shape:
            return False
        return AND(same(x, y) for x, y in zip(a.reshape(-1), b.reshape(-1)))
    if isinstance(a, (bool, np.bool_)) or isinstance(b, (bool, np.bool_)) or (isinstance(a, SV) and a.kind == 'b') or (isinstance(b, SV) and b.kind == 'b'):
        return eq(to_bool(a) if not isinstance(a, (int, float, np.number)) or isinstance(a, (bool, np.bool_)) else compare('!=', a, 0),
                  to_bool(b) if not isinstance(b, (int, float, np.number)) or isinstance(b, (bool, np.bool_)) else compare('!=', b, 0))
    num = (int, float, complex, np.number)
    if isinstance(a, num) and isinstance(b, num) and (isinstance(a, (float, complex, np.floating, np.complexfloating)) or isinstance(b, (float, complex, np.floating, np.complexfloating))):
        # concrete floating-point results (replays, witness validation): torchclifford computes coefficients in single
        # precision (complex64 default coefficients, 1j**p through a complex64 power: 1j**2 = -1-8.7e-08j), so the
        # numbers agree with pyclifford's float64 ones only to about 1e-7; the solver side compares exact values
        try:
            return abs(complex(a) - complex(b)) <= 1e-6 * max(1.0, abs(complex(a)), abs(complex(b)))
        except TypeError:
            pass
    ar, ai = parts(a)
    br, bi = parts(b)
    return b_and(eq(ar, br), eq(ai, bi))


def inputs(env, N, spec):
    """named symbolic inputs: spec is a list of (name, kind)"""
    out = {}
    for name, kind in spec:
        if kind == 'g':
            out[name] = env.bits(name, (2 * N,))
        elif kind == 'gs':
            out[name] = env.bits(name, (2, 2 * N))
        elif kind == 'ps':
            out[name] = env.phases(name, (2,))
        elif kind == 'sign':
            out[name] = env.signs(name, (1,))[0]
        elif kind == 'signs2':
            out[name] = env.signs(name, (2,))
        elif kind == 'C':
            out[name] = env.bits(name, (2, 2))
        elif kind == 'map':
            out[name] = env.bits(name, (2 * N, 2 * N))
        elif kind == 'mapps':
            out[name] = env.signs(name, (2 * N,))
        elif kind == 'mask':
            out[name] = None
        elif kind == 'mat':
            out[name] = env.bits(name, (3, 3))
        elif kind == 'cs':
            cr = env.ints(name + '_re', (2,), 0, 4)
            ci = env.ints(name + '_im', (2,), 0, 4)
            from .c07 import _coef_array
            out[name] = _coef_array(env, [(cr[k] - 2, ci[k] - 2) for k in range(2)])
    return out


def tableau(env, N):
    gs = env.bits('s', (2 * N, 2 * N))
    ps = env.signs('s_sign', (2 * N,))
    env.assume(ref.valid_tableau(gs, ps, N), 'Inv state')
    return gs, ps


# name -> (input spec, numpy call, torch call); calls receive (module, dict of inputs in that module's array type, N, extra)
def _k(f):
    return f


KERNELS = {
    'acq': ([('a', 'g'), ('b', 'g')], lambda U, x, N: U.acq(x['a'], x['b'])),
    'ipow': ([('a', 'g'), ('b', 'g')], lambda U, x, N: U.ipow(x['a'], x['b'])),
    'ps0': ([('gs', 'gs')], lambda U, x, N: U.ps0(x['gs'])),
    'acq_mat': ([('gs', 'gs')], lambda U, x, N: U.acq_mat(x['gs'])),
    'batch_dot': ([('g1', 'gs'), ('p1', 'ps'), ('c1', 'cs'), ('g2', 'gs'), ('p2', 'ps'), ('c2', 'cs')],
                  lambda U, x, N: U.batch_dot(x['g1'], x['p1'], x['c1'], x['g2'], x['p2'], x['c2'])),
    'pauli_tokenize': ([('gs', 'gs'), ('ps', 'ps')], lambda U, x, N: U.pauli_tokenize(x['gs'], x['ps'])),
    'pauli_combine': ([('C', 'C'), ('gs', 'gs'), ('ps', 'ps')], lambda U, x, N: U.pauli_combine(x['C'], x['gs'], x['ps'])),
    'pauli_transform': ([('gs', 'gs'), ('ps', 'ps'), ('m', 'map'), ('mp', 'mapps')], lambda U, x, N: U.pauli_transform(x['gs'], x['ps'], x['m'], x['mp'])),
    'clifford_rotate': ([('g', 'g'), ('p', 'sign'), ('gs', 'gs'), ('ps', 'ps')], lambda U, x, N: U.clifford_rotate(x['g'], x['p'], x['gs'], x['ps'])),
    'clifford_rotate_signless': ([('g', 'g'), ('gs', 'gs')], lambda U, x, N: U.clifford_rotate_signless(x['g'], x['gs'])),
    'front': ([('g', 'g')], lambda U, x, N: U.front(x['g'])),
    'condense': ([('g', 'g')], lambda U, x, N: U.condense(x['g'])),
    'pauli_is_onsite': ([('g', 'g')], lambda U, x, N: U.pauli_is_onsite(x['g'], N - 1)),
    'pauli_diagonalize1': ([('g', 'g')], lambda U, x, N: U.pauli_diagonalize1(x['g'], 0)),
    'map_to_state': ([('m', 'map'), ('mp', 'mapps')], lambda U, x, N: U.map_to_state(x['m'], x['mp'])),
    'state_to_map': ([('m', 'map'), ('mp', 'mapps')], lambda U, x, N: U.state_to_map(x['m'], x['mp'])),
    'z2rank': ([('mat', 'mat')], lambda U, x, N: U.z2rank(x['mat'])),
}


def h_kernel(env, N, name):
    spec, call = KERNELS[name]
    x = inputs(env, N, spec)
    if name == 'front':
        env.assume(b_not(arr_eq(x['g'], [0] * (2 * N))), 'string not the identity (front documents an arbitrary answer there)')
    Un, Ut = env.mod('utils', 'pyclifford'), env.mod('utils', 'torchclifford')
    xn = {k: (v.copy() if isinstance(v, np.ndarray) else v) for k, v in x.items()}
    xt = {k: (tt(env, v, 'c' if k.startswith('c') and name == 'batch_dot' else 'f') if isinstance(v, np.ndarray) else v) for k, v in x.items()}
    rn = env.run(lambda: call(Un, xn, N))
    rt = env.run(lambda: call(Ut, xt, N))
    env.tag('always', True)
    env.goal('numpy_side_no_exception', b_not(rn.raised))
    env.goal('torch_side_no_exception', b_not(rt.raised))
    if rn.value is None or rt.value is None:
        return
    a, b = rn.value, nn(env, rt.value)
    if name == 'pauli_diagonalize1':
        a = [np.asarray(g) for g in a]
        b = [np.asarray(g) for g in b]
    env.goal('same_result', same(a, b))


def h_state_kernel(env, N, r, name):
    """kernels over a tableau: project / expect / projection trace / entropy / measure (coin supplied)"""
    Un, Ut = env.mod('utils', 'pyclifford'), env.mod('utils', 'torchclifford')
    gs, ps = tableau(env, N)
    go = env.bits('obs', (1, 2 * N))
    po = env.signs('obs_sign', (1,))
    if name == 'stabilizer_project':
        for j in range(r, N):
            env.assume(b_not(ref.ref_anti(gs[j], go[0])), 'new stabilizer commutes with the active ones (as in stabilizer_state)')
        rn = env.run(lambda: Un.stabilizer_project(gs.copy(), go.copy(), r))
        rt = env.run(lambda: Ut.stabilizer_project(tt(env, gs), tt(env, go), r))
    elif name == 'stabilizer_expect':
        rn = env.run(lambda: Un.stabilizer_expect(gs.copy(), ps.copy(), go.copy(), po.copy(), r))
        rt = env.run(lambda: Ut.stabilizer_expect(tt(env, gs), tt(env, ps), tt(env, go), tt(env, po), r))
    elif name == 'vectorizable_stabilizer_expect':
        rn = env.run(lambda: Un.stabilizer_expect(gs.copy(), ps.copy(), go.copy(), po.copy(), r))
        rt = env.run(lambda: Ut.vectorizable_stabilizer_expect(tt(env, gs), tt(env, ps), tt(env, go), tt(env, po), r))
    elif name == 'stabilizer_projection_trace':
        rn = env.run(lambda: Un.stabilizer_projection_trace(gs.copy(), ps.copy(), go.copy(), po.copy(), r)[3])
        rt = env.run(lambda: Ut.stabilizer_projection_trace(tt(env, gs), tt(env, ps), tt(env, go), tt(env, po), r)[3])
    elif name == 'stabilizer_entropy':
        mask = np.array([True] + [False] * (N - 1))
        rn = env.run(lambda: Un.stabilizer_entropy(gs[r:N].copy(), mask))
        rt = env.run(lambda: Ut.stabilizer_entropy(tt(env, gs[r:N]), tt(env, mask, 'b')))
    env.tag('observable_is_determined_by_the_state', compare('!=', ref.ref_expect(gs, ps, r, N, go[0], po[0]), 0))
    env.goal('numpy_side_no_exception', b_not(rn.raised))
    env.goal('torch_side_no_exception', b_not(rt.raised))
    if rn.value is None or rt.value is None:
        return
    env.goal('same_result', same(rn.value, nn(env, rt.value)))


def h_pauli_parse(env, N):
    """pauli(description) and the Pauli product agree"""
    Pn, Pt = env.mod('paulialg', 'pyclifford'), env.mod('paulialg', 'torchclifford')
    codes = env.ints('codes', (2, N), 0, 3)
    res = []
    for M in (Pn, Pt):
        def f(M=M):
            A = M.pauli([5] + [codes[0][k] for k in range(N)]) if False else M.pauli(['-', 'i'] + [codes[0][k] for k in range(N)])
            B = M.pauli([codes[1][k] for k in range(N)])
            C = A @ B
            return (A.g, A.p, B.g, B.p, C.g, C.p, (-C).p, (1j * C).p, A.tokenize())
        res.append(env.run(f))
    env.goal('numpy_side_no_exception', b_not(res[0].raised))
    env.goal('torch_side_no_exception', b_not(res[1].raised))
    if res[0].value is None or res[1].value is None:
        return
    names = ('A.g', 'A.p', 'B.g', 'B.p', 'product.g', 'product.p', 'neg.p', 'times_i.p', 'tokens')
    for nm, a, b in zip(names, res[0].value, nn(env, res[1].value)):
        env.goal('same_' + nm, same(np.asarray(a) if isinstance(a, np.ndarray) else a, b))


def h_list_ops(env, N, op):
    """PauliList rotate_by / transform_by (masked and not) agree"""
    Pn, Pt = env.mod('paulialg', 'pyclifford'), env.mod('paulialg', 'torchclifford')
    Sn, St = env.mod('stabilizer', 'pyclifford'), env.mod('stabilizer', 'torchclifford')
    gs = env.bits('gs', (2, 2 * N))
    ps = env.phases('ps', (2,))
    if op.startswith('rotate'):
        n = N if op == 'rotate' else 1
        gg = env.bits('gen', (2 * n,))
        pg = env.signs('gen_sign', (1,))[0]
        mk = None if op == 'rotate' else np.array([False] * (N - 1) + [True])
        rn = env.run(lambda: Pn.PauliList(gs.copy(), ps.copy()).rotate_by(Pn.Pauli(gg.copy(), pg), *( [mk] if mk is not None else [])))
        rt = env.run(lambda: Pt.PauliList(tt(env, gs), tt(env, ps)).rotate_by(Pt.Pauli(tt(env, gg), pg), *([tt(env, mk, 'b')] if mk is not None else [])))
    else:
        n = N if op == 'transform' else 1
        mg = env.bits('map', (2 * n, 2 * n))
        mp = env.signs('map_sign', (2 * n,))
        mk = None if op == 'transform' else np.array([True] + [False] * (N - 1))
        rn = env.run(lambda: Pn.PauliList(gs.copy(), ps.copy()).transform_by(Sn.CliffordMap(mg.copy(), mp.copy()), *([mk] if mk is not None else [])))
        rt = env.run(lambda: Pt.PauliList(tt(env, gs), tt(env, ps)).transform_by(St.CliffordMap(tt(env, mg), tt(env, mp)), *([tt(env, mk, 'b')] if mk is not None else [])))
    env.goal('numpy_side_no_exception', b_not(rn.raised))
    env.goal('torch_side_no_exception', b_not(rt.raised))
    if rn.value is None or rt.value is None:
        return
    env.goal('same_strings', same(np.asarray(rn.value.gs), nn(env, rt.value.gs)))
    env.goal('same_phases', same(np.asarray(rn.value.ps), nn(env, rt.value.ps)))


def h_poly_ops(env, N, op):
    Pn, Pt = env.mod('paulialg', 'pyclifford'), env.mod('paulialg', 'torchclifford')
    x = inputs(env, N, [('g1', 'gs'), ('p1', 'ps'), ('c1', 'cs'), ('g2', 'gs'), ('p2', 'ps'), ('c2', 'cs')])

    def run(P, conv):
        A = P.PauliPolynomial(conv(x['g1']), conv(x['p1'])).set_cs(conv(x['c1'], 'c'))
        B = P.PauliPolynomial(conv(x['g2']), conv(x['p2'])).set_cs(conv(x['c2'], 'c'))
        if op == 'matmul':
            R = A @ B
        elif op == 'add':
            R = A[0:1] + B
        elif op == 'reduce':
            R = A.reduce()
        elif op == 'trace':
            return (A.trace(),)
        elif op == 'neg_scale':
            R = 2 * (-A)
        elif op == 'matmul_then_reuse':
            # a product with a one-term right operand, then the left operand is used again (and looked at)
            R1 = A @ B[0:1]
            R2 = A @ B
            R3 = B[0:1] @ A
            return (R1.gs, R1.ps, R1.cs, R2.gs, R2.ps, R2.cs, R3.gs, R3.ps, R3.cs, A.gs, A.ps, A.cs, B.gs, B.ps)
        elif op == 'pauli_matmul_then_reuse':
            Pa = P.Pauli(conv(x['g1'])[0], conv(x['p1'])[0])
            R1 = Pa @ B[0:1]
            R2 = Pa @ B
            return (R1.gs, R1.ps, R1.cs, R2.gs, R2.ps, R2.cs, Pa.g, Pa.p)
        return (R.gs, R.ps, R.cs)
    rn = env.run(lambda: run(Pn, lambda a, k='f': a.copy()))
    rt = env.run(lambda: run(Pt, lambda a, k='f': tt(env, a, k)))
    env.goal('numpy_side_no_exception', b_not(rn.raised))
    env.goal('torch_side_no_exception', b_not(rt.raised))
    if rn.value is None or rt.value is None:
        return
    names = ('strings', 'phases', 'coefficients') if op != 'trace' else ('trace',)
    if len(rn.value) > len(names):
        names = tuple('component%d' % k for k in range(len(rn.value)))
    for nm, a, b in zip(names, rn.value, nn(env, rt.value)):
        env.goal('same_' + nm, same(np.asarray(a) if isinstance(a, np.ndarray) else a, b))


def h_map_ops(env, N, op, kind='f'):
    """kind: dtype class of the torch tensors handed to torchclifford ('f' float32 as its own constructors build them,
    'i' int64 as torch.tensor(<integer table>) gives)"""
    Sn, St = env.mod('stabilizer', 'pyclifford'), env.mod('stabilizer', 'torchclifford')
    mg = env.bits('map', (2 * N, 2 * N))
    mp = env.signs('map_sign', (2 * N,))
    env.assume(ref.symplectic(mg), 'map valid')
    m2 = env.bits('map2', (2 * N, 2 * N))
    p2 = env.signs('map2_sign', (2 * N,))

    def run(Smod, conv):
        m = Smod.CliffordMap(conv(mg), conv(mp))
        if op == 'compose':
            R = m.compose(Smod.CliffordMap(conv(m2), conv(p2)))
            return (R.gs, R.ps)
        if op == 'inverse':
            R = m.inverse()
            return (R.gs, R.ps)
        if op == 'to_state':
            R = m.to_state()
            return (R.gs, R.ps, R.r)
        if op == 'copy':
            R = m.copy()
            return (R.gs, R.ps)
        if op == 'roundtrip':
            R = m.to_state().to_map()
            return (R.gs, R.ps)
        if op == 'compose_history':
            # the operands are used again after the first product: (m o m2), then m o (m o m2), then m's own fields
            other = Smod.CliffordMap(conv(m2), conv(p2))
            R1 = m.compose(other)
            R2 = m.compose(R1)
            R3 = other.compose(m)
            return (R1.gs, R1.ps, R2.gs, R2.ps, R3.gs, R3.ps, m.gs, m.ps, other.gs, other.ps)
        if op == 'compose_operands':
            other = Smod.CliffordMap(conv(m2), conv(p2))
            R1 = m.compose(other)
            return (R1.gs, R1.ps, m.gs, m.ps, other.gs, other.ps)
        if op == 'inverse_history':
            R1 = m.inverse()
            R2 = m.compose(R1)
            R3 = m.inverse()
            return (R1.gs, R1.ps, R2.gs, R2.ps, R3.gs, R3.ps, m.gs, m.ps)
    rn = env.run(lambda: run(Sn, lambda a: a.copy()))
    rt = env.run(lambda: run(St, lambda a: tt(env, a, kind)))
    env.goal('numpy_side_no_exception', b_not(rn.raised))
    env.goal('torch_side_no_exception', b_not(rt.raised))
    if rn.value is None or rt.value is None:
        return
    for k, (a, b) in enumerate(zip(rn.value, nn(env, rt.value))):
        env.goal('same_component%d' % k, same(np.asarray(a) if isinstance(a, np.ndarray) else a, b))


def h_state_ops(env, N, r, op):
    Sn, St = env.mod('stabilizer', 'pyclifford'), env.mod('stabilizer', 'torchclifford')
    Pn, Pt = env.mod('paulialg', 'pyclifford'), env.mod('paulialg', 'torchclifford')
    gs, ps = tableau(env, N)
    go = env.bits('obs', (2, 2 * N))
    po = env.signs('obs_sign', (2,))

    def run(Smod, Pmod, conv):
        s = Smod.StabilizerState(conv(gs), ps=conv(ps)).set_r(r)
        if op == 'expect_list':
            return (s.expect(Pmod.PauliList(conv(go), conv(po))),)
        if op == 'copy':
            c = s.copy()
            return (c.gs, c.ps, c.r)
        if op == 'entropy':
            return (s.entropy([0]),)
        if op.startswith('entropy_mask'):
            # the region as a boolean mask in the package's own array type (numpy bool array / torch bool tensor)
            pat = {'entropy_mask_first': [True] + [False] * (N - 1), 'entropy_mask_last': [False] * (N - 1) + [True],
                   'entropy_mask_ends': [True] + [False] * (N - 2) + [True] if N > 1 else [True], 'entropy_mask_none': [False] * N}[op]
            return (s.entropy(conv(np.array(pat, dtype=bool), 'b') if conv is not plain_copy else np.array(pat, dtype=bool)),)
        if op == 'to_map':
            m = s.to_map()
            return (m.gs, m.ps)
        if op == 'rotate':
            s.rotate_by(Pmod.Pauli(conv(go[0]), po[0]))
            return (s.gs, s.ps, s.r)
        if op == 'stabilizers':
            st = s.stabilizers
            return (st.gs, st.ps)
        if op == 'overlap_then_use':
            # the receiver of an overlap query is used again afterwards (its fields and a list expectation); the overlap
            # value itself is compared by h_state_kernel (stabilizer_projection_trace), where the recorded finding lives
            sig = Smod.StabilizerState(conv(g2), ps=conv(p2)).set_r(0)
            s.expect(sig)
            return (s.gs, s.ps, s.r, s.expect(Pmod.PauliList(conv(go), conv(po))))
        if op == 'get_prob_then_use':
            s.get_prob(conv(bits))
            return (s.gs, s.ps, s.r, s.expect(Pmod.PauliList(conv(go), conv(po))))
    if op == 'overlap_then_use':
        g2 = env.bits('t', (2 * N, 2 * N))
        p2 = env.signs('t_sign', (2 * N,))
        env.assume(ref.valid_tableau(g2, p2, N), 'Inv second state')
    if op == 'get_prob_then_use':
        bits = env.bits('readout', (N,))
    rn = env.run(lambda: run(Sn, Pn, plain_copy))
    rt = env.run(lambda: run(St, Pt, lambda a, k='f': tt(env, a, k)))
    env.goal('numpy_side_no_exception', b_not(rn.raised))
    env.goal('torch_side_no_exception', b_not(rt.raised))
    if rn.value is None or rt.value is None:
        return
    for k, (a, b) in enumerate(zip(rn.value, nn(env, rt.value))):
        env.goal('same_component%d' % k, same(np.asarray(a) if isinstance(a, np.ndarray) else a, b))


def plain_copy(a, k='f'):
    return a.copy()


def h_constructors(env, N, which):
    Sn, St = env.mod('stabilizer', 'pyclifford'), env.mod('stabilizer', 'torchclifford')

    def run(Smod):
        s = getattr(Smod, which)(N)
        return (s.gs, s.ps, getattr(s, 'r', 0))
    rn = env.run(lambda: run(Sn))
    rt = env.run(lambda: run(St))
    env.tag('always', True)
    env.goal('numpy_side_no_exception', b_not(rn.raised))
    env.goal('torch_side_no_exception', b_not(rt.raised))
    if rn.value is None or rt.value is None:
        return
    for k, (a, b) in enumerate(zip(rn.value, nn(env, rt.value))):
        env.goal('same_component%d' % k, same(np.asarray(a) if isinstance(a, np.ndarray) else a, b))


def h_circuit_ops(env, N, prog, config, direction):
    """gate / layer / circuit application: the same program of generator and one-qubit map gates built in both
    packages, applied to the same symbolic Pauli list"""
    Pn, Pt = env.mod('paulialg', 'pyclifford'), env.mod('paulialg', 'torchclifford')
    Sn, St = env.mod('stabilizer', 'pyclifford'), env.mod('stabilizer', 'torchclifford')
    Cn, Ct = env.mod('circuit', 'pyclifford'), env.mod('circuit', 'torchclifford')
    gs = env.bits('gs', (2, 2 * N))
    ps = env.phases('ps', (2,))
    contents = []
    for k, (kind, q) in enumerate(prog):
        n = len(q)
        if kind == 'gen':
            contents.append((env.bits('g%d_gen' % k, (2 * n,)), env.signs('g%d_sign' % k, (1,))[0]))
        else:
            mg = env.bits('g%d_map' % k, (2 * n, 2 * n))
            env.assume(ref.symplectic(mg), 'map gate valid')
            contents.append((mg, env.signs('g%d_mapsign' % k, (2 * n,))))

    def run(P, Smod, C, conv, torch_side):
        circ = C.identity_circuit(N) if torch_side else C.CliffordCircuit(N)
        for (kind, q), (a, b) in zip(prog, contents):
            gate = C.CliffordGate(*q)
            if kind == 'gen':
                gate.set_generator(P.Pauli(conv(a), b))
            else:
                gate.set_forward_map(Smod.CliffordMap(conv(a), conv(b)))
            circ.take(gate)
        if config == 'circuit':
            circ.compile(N) if torch_side else circ.compile()
        if config == 'copy':
            circ = circ.copy()          # run the copy (layer links, gates and maps must all have been carried over)
        obj = P.PauliList(conv(gs), conv(ps))
        getattr(circ, direction)(obj)
        return (obj.gs, obj.ps)
    rn = env.run(lambda: run(Pn, Sn, Cn, lambda a: a.copy(), False))
    rt = env.run(lambda: run(Pt, St, Ct, lambda a: tt(env, a), True))
    env.tag('always', True)
    env.goal('numpy_side_no_exception', b_not(rn.raised))
    env.goal('torch_side_no_exception', b_not(rt.raised))
    if rn.value is None or rt.value is None:
        return
    env.goal('same_strings', same(np.asarray(rn.value[0]), nn(env, rt.value[0])))
    env.goal('same_phases', same(np.asarray(rn.value[1]), nn(env, rt.value[1])))


def h_diagonalize(env, N, i0, causal):
    Pn, Pt = env.mod('paulialg', 'pyclifford'), env.mod('paulialg', 'torchclifford')
    Cn, Ct = env.mod('circuit', 'pyclifford'), env.mod('circuit', 'torchclifford')
    g = env.bits('g', (2 * N,))
    p = env.signs('sign', (1,))[0]
    tail = g[2 * i0:] if causal else g
    env.assume(b_not(arr_eq(tail, [0] * len(tail))), 'operator (tail) not the identity')

    def run(P, C, conv):
        op = P.Pauli(conv(g), p)
        circ = C.diagonalize(op, i0, causal=causal)
        out = P.Pauli(conv(g), p).as_list()
        circ.forward(out)
        return (out.gs, out.ps)
    rn = env.run(lambda: run(Pn, Cn, lambda a: a.copy()))
    rt = env.run(lambda: run(Pt, Ct, lambda a: tt(env, a)))
    env.tag('always', True)
    env.goal('numpy_side_no_exception', b_not(rn.raised))
    env.goal('torch_side_no_exception', b_not(rt.raised))
    if rn.value is None or rt.value is None:
        return
    env.goal('same_strings', same(np.asarray(rn.value[0]), nn(env, rt.value[0])))
    env.goal('same_phases', same(np.asarray(rn.value[1]), nn(env, rt.value[1])))


def jobs(tier):
    J = []
    if tier == 'thorough':
        for name in ('acq', 'ipow', 'ps0', 'acq_mat', 'batch_dot', 'pauli_tokenize', 'clifford_rotate', 'clifford_rotate_signless', 'map_to_state', 'state_to_map', 'front', 'pauli_is_onsite'):
            J.append(dict(harness=('c13', 'h_kernel'), params=dict(N=3, name=name), timeout_s=600, max_paths=5000))
        for op in ('rotate', 'rotate_masked'):
            J.append(dict(harness=('c13', 'h_list_ops'), params=dict(N=3, op=op), timeout_s=600))
        for r in range(4):
            for name in ('stabilizer_expect', 'vectorizable_stabilizer_expect'):
                J.append(dict(harness=('c13', 'h_state_kernel'), params=dict(N=3, r=r, name=name), timeout_s=900, max_paths=5000, cost=50))
    # entropy of mixed states needs three qubits to have a generator outside the region next to one across the cut
    for N in (2, 3):
        for r in (0, 1):
            for op in ('entropy_mask_first', 'entropy_mask_last', 'entropy_mask_ends', 'entropy_mask_none'):
                if N == 3 and not (op == 'entropy_mask_ends' and r == 1):
                    continue
                J.append(dict(harness=('c13', 'h_state_ops'), params=dict(N=N, r=r, op=op), timeout_s=600, max_paths=5000, cost=20 * N))
    for r in (0, 1, 2):
        J.append(dict(harness=('c13', 'h_state_kernel'), params=dict(N=3, r=r, name='stabilizer_entropy'), timeout_s=600, max_paths=5000, cost=40))
        J.append(dict(harness=('c13', 'h_state_ops'), params=dict(N=3, r=r, op='entropy'), timeout_s=600, max_paths=5000, cost=40))
    for N in (1, 2):
        for name in KERNELS:
            J.append(dict(harness=('c13', 'h_kernel'), params=dict(N=N, name=name), timeout_s=300, max_paths=3000))
        for r in range(N + 1):
            for name in ('stabilizer_project', 'stabilizer_expect', 'vectorizable_stabilizer_expect', 'stabilizer_projection_trace', 'stabilizer_entropy'):
                if name == 'stabilizer_entropy' and r == N:
                    continue
                if name == 'stabilizer_projection_trace' and r != 0:
                    continue        # both packages only ever call it with r = 0 (pure receiver); torch indexes out of range otherwise
                J.append(dict(harness=('c13', 'h_state_kernel'), params=dict(N=N, r=r, name=name), timeout_s=300, max_paths=3000))
            for op in ('expect_list', 'copy', 'entropy', 'to_map', 'rotate', 'stabilizers') + (('overlap_then_use', 'get_prob_then_use') if (r == 0 and N == 1) else ()):
                if op == 'entropy' and r == N:
                    continue
                J.append(dict(harness=('c13', 'h_state_ops'), params=dict(N=N, r=r, op=op), timeout_s=300, max_paths=3000))
        J.append(dict(harness=('c13', 'h_pauli_parse'), params=dict(N=N), max_paths=5000))
        for op in ('rotate', 'rotate_masked', 'transform', 'transform_masked'):
            if N == 1 and op.endswith('masked'):
                continue
            J.append(dict(harness=('c13', 'h_list_ops'), params=dict(N=N, op=op), timeout_s=300))
        for op in ('matmul', 'add', 'reduce', 'trace', 'neg_scale', 'matmul_then_reuse', 'pauli_matmul_then_reuse'):
            J.append(dict(harness=('c13', 'h_poly_ops'), params=dict(N=N, op=op), timeout_s=300, max_paths=5000))
        for op in ('compose', 'inverse', 'to_state', 'copy', 'roundtrip'):
            if op == 'inverse' and N == 2:
                continue            # torch pauli_combine forks on every bit of the inverse table (2^16 paths)
            J.append(dict(harness=('c13', 'h_map_ops'), params=dict(N=N, op=op), timeout_s=300))
        for kind in ('f', 'i'):
            J.append(dict(harness=('c13', 'h_map_ops'), params=dict(N=N, op='compose_history' if N == 1 else 'compose_operands', kind=kind), timeout_s=300, cost=10))
            if N == 1:
                J.append(dict(harness=('c13', 'h_map_ops'), params=dict(N=N, op='inverse_history', kind=kind), timeout_s=300, cost=10))
        J.append(dict(harness=('c13', 'h_map_ops'), params=dict(N=N, op='compose', kind='i'), timeout_s=300))
        for which in ('zero_state', 'one_state', 'ghz_state', 'maximally_mixed_state', 'identity_map'):
            J.append(dict(harness=('c13', 'h_constructors'), params=dict(N=N, which=which)))
    progs = [(2, [['gen', [0, 1]]]), (2, [['gen', [1]], ['gen', [0, 1]]]), (2, [['fmap', [0]], ['gen', [0, 1]]]), (2, [['gen', [0]], ['gen', [1]], ['gen', [0, 1]]]),
             (3, [['gen', [0, 1]], ['gen', [1, 2]], ['gen', [0]], ['gen', [0]]]), (3, [['gen', [0]], ['gen', [1]], ['gen', [1]], ['gen', [0, 2]], ['gen', [2]]])]
    for N, prog in progs:
        for config in ('plain', 'circuit', 'copy'):
            if N == 3 and config == 'circuit':
                continue
            for direction in ('forward', 'backward'):
                J.append(dict(harness=('c13', 'h_circuit_ops'), params=dict(N=N, prog=prog, config=config, direction=direction), timeout_s=300, max_paths=4000, cost=20))
    # gates whose qubit tuple is not ascending and not a consecutive run (the mask is order-blind in both packages)
    for N, q in ((3, [2, 0]), (4, [0, 3, 2]), (4, [1, 0, 3]), (4, [3, 1])) + (((4, [2, 3, 0]), (4, [3, 2, 1])) if tier == 'thorough' else ()):
        for kind in ('gen', 'fmap') if len(q) < 3 else ('gen',):
            for direction in ('forward', 'backward'):
                if kind == 'fmap' and direction == 'backward':
                    continue            # inverting a symbolic two-qubit map forks on every bit of the inverse (see h_map_ops)
                J.append(dict(harness=('c13', 'h_circuit_ops'), params=dict(N=N, prog=[[kind, q]], config='plain', direction=direction), timeout_s=300, max_paths=4000, cost=20))
    # the layer-packing lemma on the torch circuit classes (same structural obligations as C09 on pyclifford)
    for N in (2, 3):
        for n_g in (1, 2, 3, 4):
            J.append(dict(harness=('circuits', 'h_packing_all'), params=dict(N=N, n_ops=n_g, pkg='torchclifford'), cost=3 * n_g))
    for i0 in (0, 1, 2):      # a target strictly inside the register needs three qubits
        J.append(dict(harness=('c13', 'h_diagonalize'), params=dict(N=3, i0=i0, causal=False), timeout_s=600, max_paths=6000, cost=40))
    for N in (1, 2):
        for i0 in range(N):
            for causal in (False, True):
                if causal and N > 1:
                    continue        # the causal torch path mixes numpy and torch indexing (recorded finding, exercised at N=1)
                J.append(dict(harness=('c13', 'h_diagonalize'), params=dict(N=N, i0=i0, causal=causal), timeout_s=300, max_paths=4000))
    return J
