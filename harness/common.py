"""Helpers shared by the per-property harnesses.  Every harness is one function  h(env, **shape_params)  that
(1) declares its symbolic inputs through env, (2) states the documented precondition with env.assume *before* running
the code under test, (3) runs the real class layer / kernels, (4) states named goal conjuncts with env.goal.
The same function is executed concretely over the real build by the replay judge (env.symbolic == False)."""
import itertools
import numpy as np
from symclif.values import (SV, is_sym, to_int, to_bool, compare, ite, b_and, b_or, b_not, b_implies, AND, OR, arith,
                            arr_eq, oarr, parts)
from symclif import ref


class Mods:
    def __init__(self, env, pkg='pyclifford'):
        self.pa = env.mod('paulialg', pkg)
        self.st = env.mod('stabilizer', pkg)
        self.ut = env.mod('utils', pkg)
        self.ci = env.mod('circuit', pkg)


def eq(a, b):
    return compare('==', a, b)


def masks(N, n=None):
    """all boolean masks over N qubits (optionally of size n), as tuples of bools"""
    out = []
    for bits in itertools.product((False, True), repeat=N):
        if n is None or sum(bits) == n:
            out.append(bits)
    return out


def npmask(env, m):
    return np.array(m, dtype=bool)


def embed_string(g_small, mask, N):
    """string on the masked qubits (in ascending order) embedded in N qubits"""
    g = oarr([0] * (2 * N))
    k = 0
    for i in range(N):
        if mask[i]:
            g[2 * i] = g_small[2 * k]
            g[2 * i + 1] = g_small[2 * k + 1]
            k += 1
    return g


def rows_eq(gs1, ps1, gs2, ps2):
    return b_and(arr_eq(gs1, gs2), arr_eq(ps1, ps2))


def copy_arr(env, a):
    return a.copy()


def snapshot(a):
    """term-wise snapshot of an array (list of scalars) for before/after comparison"""
    return list(np.asarray(a, dtype=object).reshape(-1))


def unchanged(snap, a):
    cur = list(np.asarray(a, dtype=object).reshape(-1))
    if len(cur) != len(snap):
        return False
    return AND(compare('==', x, y) for x, y in zip(snap, cur))


def in_range(a, lo, hi):
    return AND(b_and(compare('>=', x, lo), compare('<=', x, hi)) for x in np.asarray(a, dtype=object).reshape(-1))
