"""Helpers shared by the per-property harnesses.  Every harness is one function  h(env, **shape_params)  that
(1) declares its symbolic inputs through env, (2) states the documented precondition with env.assume *before* running
the code under test, (3) runs the real class layer / kernels, (4) states named goal conjuncts with env.goal.
The same function is executed concretely over the real build by the replay judge (env.symbolic == False)."""
import itertools
import numpy as np
from symclif.values import (SV, is_sym, to_int, to_bool, compare, ite, b_and, b_or, b_not, b_implies, AND, OR, arith,
                            arr_eq, oarr, parts)
from symclif import ref


class Mods:
    def __init__(self, env, pkg='pyclifford'):
        self.pa = env.mod('paulialg', pkg)
        self.st = env.mod('stabilizer', pkg)
        self.ut = env.mod('utils', pkg)
        self.ci = env.mod('circuit', pkg)


def eq(a, b):
    return compare('==', a, b)


def masks(N, n=None):
    """all boolean masks over N qubits (optionally of size n), as tuples of bools"""
    out = []
    for bits in itertools.product((False, True), repeat=N):
        if n is None or sum(bits) == n:
            out.append(bits)
    return out


def npmask(env, m):
    return np.array(m, dtype=bool)


def embed_string(g_small, mask, N):
    """string on the masked qubits (in ascending order) embedded in N qubits"""
    g = oarr([0] * (2 * N))
    k = 0
    for i in range(N):
        if mask[i]:
            g[2 * i] = g_small[2 * k]
            g[2 * i + 1] = g_small[2 * k + 1]
            k += 1
    return g


def rows_eq(gs1, ps1, gs2, ps2):
    return b_and(arr_eq(gs1, gs2), arr_eq(ps1, ps2))


def copy_arr(env, a):
    return a.copy()


def snapshot(a):
    """term-wise snapshot of an array (list of scalars) for before/after comparison"""
    return list(np.asarray(a, dtype=object).reshape(-1))


def unchanged(snap, a):
    cur = list(np.asarray(a, dtype=object).reshape(-1))
    if len(cur) != len(snap):
        return False
    return AND(compare('==', x, y) for x, y in zip(snap, cur))


def in_range(a, lo, hi):
    return AND(b_and(compare('>=', x, lo), compare('<=', x, hi)) for x in np.asarray(a, dtype=object).reshape(-1))


LAYOUTS = ('plain', 'reversed', 'strided', 'columns', 'transposed', 'negated')


def list_in_layout(env, M, gs, ps, form):
    """a PauliList denoting rows `rows` of (gs, ps) whose table is stored in the given memory layout: a reversed or
    strided selection of a longer list, a column window of a wider array, a transposed buffer, a negated list sharing
    its strings.  'strided' needs 4 input rows, the others 2.  Returns (list, rows, phase shift per row)."""
    import numpy as np
    base = M.pa.PauliList(gs.copy(), ps.copy())
    L = gs.shape[0]
    shift = 0
    if form == 'reversed':
        obj, rows = base[::-1], list(range(L))[::-1]
    elif form == 'strided':
        obj, rows = base[::2], list(range(0, L, 2))
    elif form == 'columns':
        if env.symbolic:
            from symclif.shim_numpy import S
            wide = S(np.concatenate([np.asarray(gs, dtype=object), np.asarray(gs, dtype=object)], axis=1))
        else:
            wide = np.concatenate([np.asarray(gs), np.asarray(gs)], axis=1)
        obj, rows = M.pa.PauliList(wide[:, :gs.shape[1]], ps.copy()), list(range(L))
    elif form == 'transposed':
        if env.symbolic:
            from symclif.shim_numpy import S
            tr = S(np.ascontiguousarray(np.asarray(gs, dtype=object).T)).T
        else:
            tr = np.ascontiguousarray(np.asarray(gs).T).T
        obj, rows = M.pa.PauliList(tr, ps.copy()), list(range(L))
    elif form == 'negated':
        obj, rows, shift = -base, list(range(L)), 2
    else:
        obj, rows = base, list(range(L))
    return obj, rows, shift


def as_dtype(env, a, dtype):
    """the array `a` (symbolic object array or concrete ints) as an array of the given numpy dtype name: 'int64' plain;
    'uint8' the unsigned stand-in (symbolic) / numpy.uint8 (concrete)"""
    import numpy as np
    if dtype == 'int64':
        return a.copy()
    if env.symbolic:
        from symclif.shim_numpy import as_unsigned
        return as_unsigned(a, 8)
    return np.array(np.asarray(a).astype(np.int64), dtype=np.uint8)
