"""Program-shaped harnesses for C09 / C10 / C14: a program is a list of [kind, qubits] with symbolic gate contents."""
import itertools
import numpy as np
from .common import *
from .c03 import embedded_table
from .c04 import rotation_table, S_

NAMED = ('H', 'S', 'X', 'Y', 'Z', 'CNOT')


def make_gates(env, M, N, prog, tag='g', np_qubits=False):
    """real gate objects for the program, plus for each gate the reference full-register table (None for bmap gates)
    and the validity assumptions of symbolic map gates"""
    gates, tables, assumptions = [], [], []
    for k, (kind, qubits) in enumerate(prog):
        qubits = list(qubits)
        n = len(qubits)
        mask = [i in qubits for i in range(N)]
        if np_qubits:
            qubits = list(np.array(qubits, dtype=np.int64))        # numpy integers, as diagonalize() passes them
        if kind == 'gen':
            gg = env.bits('%s%d_gen' % (tag, k), (2 * n,))
            pg = env.signs('%s%d_gensign' % (tag, k), (1,))[0]
            gate = M.ci.CliffordGate(*qubits)
            gate.set_generator(M.pa.Pauli(gg.copy(), pg))
            tables.append(rotation_table(embed_string(gg, mask, N), pg, N))
        elif kind in ('fmap', 'bmap', 'amap'):
            mg = env.bits('%s%d_map' % (tag, k), (2 * n, 2 * n))
            mp = env.signs('%s%d_mapsign' % (tag, k), (2 * n,))
            if kind != 'amap':
                assumptions.append(ref.symplectic(mg))
            gate = M.ci.CliffordGate(*qubits)
            m = M.st.CliffordMap(mg.copy(), mp.copy())
            if kind == 'bmap':
                gate.set_backward_map(m)
                tables.append(('inverse-of',) + embedded_table(mg, mp, mask, N))
            else:
                gate.set_forward_map(m)
                tables.append(embedded_table(mg, mp, mask, N))
        elif kind in NAMED or kind.startswith('C'):
            gate = getattr(M.ci, kind)(*qubits) if kind in NAMED else M.ci.C(int(kind[1:]), *qubits)
            fm = gate.forward_map
            tables.append(embedded_table(oarr(np.asarray(fm.gs, dtype=object)), oarr(np.asarray(fm.ps, dtype=object)), mask, N))
        else:
            raise KeyError(kind)
        gates.append(gate)
    return gates, tables, assumptions


def ref_apply(table, g, p):
    return ref.ref_transform(g, p, table[0], table[1])


def build_circuit(M, N, gates, cls, variant, measures=None):
    """add the gates through the public API (take / compose / copy)"""
    C = getattr(M.ci, cls) if cls != 'identity_circuit' else None
    if variant == 'compose':
        h = len(gates) // 2
        a = C(N)
        for g in gates[:h]:
            a.take(g)
        b = C(N)
        for g in gates[h:]:
            b.take(g)
        circ = a.compose(b)
    else:
        circ = C(N)
        for g in gates:
            circ.take(g)
        if variant == 'copy':
            circ = circ.copy()
    return circ


def compile_as(circ, config, N):
    if config == 'layers':
        for layer in circ.layers_forward():
            layer.compile(N)
    elif config == 'circuit':
        circ.compile()
    return circ


def flat_order(circ):
    return [g for layer in circ.layers_forward() for g in getattr(layer, 'gates', [])]


def h_program_forward(env, N, prog, config='plain', cls='CliffordCircuit', variant='orig', inp='list', r=0, np_qubits=False):
    """circuit.forward(x) == the gates applied one at a time in the order they were added (reference semantics)"""
    M = Mods(env)
    gates, tables, assumptions = make_gates(env, M, N, prog, np_qubits=np_qubits)
    for a in assumptions:
        env.assume(a, 'symbolic map gates are valid maps')
    L = 1 if inp == 'list' else 2 * N
    gs = env.bits('in', (L, 2 * N))
    ps = env.phases('in_ps', (L,)) if inp == 'list' else env.signs('in_sign', (L,))
    obj = M.pa.PauliList(gs.copy(), ps.copy()) if inp == 'list' else M.st.StabilizerState(gs.copy(), ps=ps.copy()).set_r(r)
    if cls == 'Circuit' and variant != 'orig':
        variant = 'orig'          # Circuit has no copy / compose
    res = env.run(lambda: compile_as(build_circuit(M, N, gates, cls, variant), config, N).forward(obj))
    env.goal('no_exception', b_not(res.raised))
    if res.value is None:
        return
    env.goal('returns_object', res.value is obj)
    ok = tuple(np.shape(obj.gs)) == (L, 2 * N)
    env.goal('shape', ok)
    if not ok:
        return
    for j in range(L):
        g, p = gs[j], ps[j]
        for t in tables:
            g, p = ref_apply(t, g, p)
        env.goal('row%d_string' % j, arr_eq(obj.gs[j], g))
        env.goal('row%d_phase' % j, eq(obj.ps[j], p))
    if inp == 'state':
        env.goal('rank_unchanged', eq(obj.r, r))


def h_program_roundtrip(env, N, prog, config='plain', cls='CliffordCircuit', variant='orig', order='fb', inp='list', r=0, recompile=0):
    """backward after forward (order='fb') and forward after backward ('bf') restore every Pauli list / state.
    recompile=k: the circuit is compiled after the first len-k gates, the remaining k gates are added, and it is
    compiled again (the documented way to refresh a modified circuit)."""
    M = Mods(env)
    gates, tables, assumptions = make_gates(env, M, N, prog)
    for a in assumptions:
        env.assume(a, 'symbolic map gates are valid maps')
    L = 1 if inp == 'list' else 2 * N
    gs = env.bits('in', (L, 2 * N))
    ps = env.phases('in_ps', (L,)) if inp == 'list' else env.signs('in_sign', (L,))
    obj = M.pa.PauliList(gs.copy(), ps.copy()) if inp == 'list' else M.st.StabilizerState(gs.copy(), ps=ps.copy()).set_r(r)
    if cls == 'Circuit' and variant != 'orig':
        variant = 'orig'

    def go():
        if recompile:
            circ = compile_as(build_circuit(M, N, gates[:len(gates) - recompile], cls, 'orig'), config, N)
            for g in gates[len(gates) - recompile:]:
                circ.take(g)
            if variant == 'copy':
                circ = circ.copy()
            circ = compile_as(circ, config, N)
        else:
            circ = compile_as(build_circuit(M, N, gates, cls, variant), config, N)
        if order == 'fb':
            circ.forward(obj)
            circ.backward(obj)
        else:
            circ.backward(obj)
            circ.forward(obj)
        return obj
    res = env.run(go)
    env.goal('no_exception', b_not(res.raised))
    if res.value is None:
        return
    ok = tuple(np.shape(obj.gs)) == (L, 2 * N)
    env.goal('shape', ok)
    if not ok:
        return
    for j in range(L):
        env.goal('row%d_string_restored' % j, arr_eq(obj.gs[j], gs[j]))
        env.goal('row%d_phase_restored' % j, eq(obj.ps[j], ps[j]))
    if inp == 'state':
        env.goal('rank_restored', eq(obj.r, r))


def h_build_history(env, N, prog, script, cls='CliffordCircuit', direction='forward'):
    """the circuit is built by a script of public calls -- 'g' take the next gate, 'c' compile(), 'k' continue with
    circ.copy(), 'o' compose with a fresh circuit holding the next gate, 'f' run forward on a scratch operand, 'b' run
    backward on a scratch operand -- and then acts as the ordered product of all gates added (forward) or undoes it
    (roundtrip): whatever was compiled, copied or run in between"""
    M = Mods(env)
    # ['same', k] in the program: the k-th gate OBJECT is taken again (one object referenced from two places)
    base = [op for op in prog if op[0] != 'same']
    g0, t0, assumptions = make_gates(env, M, N, base)
    gates, tables, bi = [], [], 0
    for op in prog:
        if op[0] == 'same':
            gates.append(gates[op[1]])
            tables.append(tables[op[1]])
        else:
            gates.append(g0[bi])
            tables.append(t0[bi])
            bi += 1
    for a in assumptions:
        env.assume(a, 'symbolic map gates are valid maps')
    gs = env.bits('in', (1, 2 * N))
    ps = env.phases('in_ps', (1,))
    obj = M.pa.PauliList(gs.copy(), ps.copy())
    it = iter(gates)

    def go():
        circ = getattr(M.ci, cls)(N)
        for step in script:
            if step == 'g':
                circ.take(next(it))
            elif step == 'c':
                circ.compile()
            elif step == 'k':
                circ = circ.copy()
            elif step == 'o':
                other = getattr(M.ci, cls)(N)
                other.take(next(it))
                circ = circ.compose(other)
            elif step in 'fb':
                scratch = M.pa.PauliList(env.const([[1, 0] * N]), env.const([0]))
                getattr(circ, 'forward' if step == 'f' else 'backward')(scratch)
        if direction == 'forward':
            circ.forward(obj)
        else:
            circ.forward(obj)
            circ.backward(obj)
        return circ
    res = env.run(go)
    env.goal('no_exception', b_not(res.raised))
    if res.value is None:
        return
    used = script.count('g') + script.count('o')
    g, p = gs[0], ps[0]
    if direction == 'forward':
        for t in tables[:used]:
            g, p = ref_apply(t, g, p)
    env.goal('string', arr_eq(obj.gs[0], g))
    env.goal('phase', eq(obj.ps[0], p))


def h_packing_all(env, N, n_ops, cls='CliffordCircuit', kmax=None, with_measure=False, pkg='pyclifford'):
    """the packing lemma on EVERY placement shape with n_ops operations (and, for Circuit, every position of one measurement)"""
    tp = []
    for k in range(1, (kmax or N) + 1):
        tp += [list(c) for c in itertools.combinations(range(N), k)]
    for places in itertools.product(tp, repeat=n_ops):
        variants = [()] if not with_measure else [(m,) for m in range(n_ops)]
        for ms in variants:
            h_packing(env, N, [list(q) for q in places], cls, ms, tag='%s%s:' % (places, ms), pkg=pkg)


def h_packing(env, N, placements, cls='CliffordCircuit', measures=(), tag='', pkg='pyclifford'):
    """structural lemma on a concrete placement shape (no symbolic data): the flattened layer order is a permutation of
    the added gates in which overlapping gates keep their order, gates sharing a layer are pairwise disjoint, and no
    gate added after a measurement precedes it"""
    M = Mods(env, pkg)
    ops = []
    circ = M.ci.identity_circuit(N) if cls == 'CliffordCircuit' else getattr(M.ci, cls)(N)
    for k, q in enumerate(placements):
        if k in measures:
            circ.measure(*q)
            ops.append(('M', tuple(q), None))
        else:
            g = M.ci.CliffordGate(*q)
            circ.take(g)
            ops.append(('G', tuple(q), g))
    flat = []
    layer_of = {}
    for li, layer in enumerate(circ.layers_forward()):
        if hasattr(layer, 'gates'):
            for g in layer.gates:
                layer_of[id(g)] = li
                flat.append(('G', g))
        else:
            flat.append(('M', layer))
            layer_of[id(layer)] = li
    added = [o[2] for o in ops if o[0] == 'G']
    env.goal(tag + 'permutation', sorted(id(g) for _, g in flat if _ == 'G') == sorted(id(g) for g in added) and
             len([1 for k, _ in flat if k == 'M']) == len(measures))
    pos = {id(g): i for i, (_, g) in enumerate(flat)}
    okorder = True
    okdisjoint = True
    for a in range(len(added)):
        for b in range(a + 1, len(added)):
            ga, gb = added[a], added[b]
            if set(ga.qubits) & set(gb.qubits):
                if id(ga) in pos and id(gb) in pos and not pos[id(ga)] < pos[id(gb)]:
                    okorder = False
                if layer_of.get(id(ga)) == layer_of.get(id(gb)):
                    okdisjoint = False
    env.goal(tag + 'overlapping_gates_keep_order', okorder)
    env.goal(tag + 'gates_in_a_layer_are_disjoint', okdisjoint)
    if measures:
        # every gate added after measurement m sits in a later layer than m; every gate added before, in an earlier one
        okm = True
        mlayers = [l for l in circ.layers_forward() if not hasattr(l, 'gates')]
        mi = 0
        for k, o in enumerate(ops):
            if o[0] == 'M':
                ml = layer_of[id(mlayers[mi])]
                mi += 1
                for k2, o2 in enumerate(ops):
                    if o2[0] == 'G':
                        if k2 > k and not layer_of[id(o2[2])] > ml:
                            okm = False
                        if k2 < k and not layer_of[id(o2[2])] < ml:
                            okm = False
        env.goal(tag + 'nothing_crosses_a_measurement', okm)


def h_compose_history(env, N, places, extra, scenario, cls='CliffordCircuit'):
    """compose onto an EMPTY / non-empty circuit, then keep using both circuits: the part keeps its own action, the
    composite acts as part + later gates, and composing the same block k times acts as the block k times"""
    M = Mods(env)
    prog = [['gen', q] for q in places] + [['gen', extra]]
    gates, tables, _ = make_gates(env, M, N, prog)
    part = M.ci.CliffordCircuit(N)
    for g in gates[:-1]:
        part.take(g)
    gs = env.bits('in', (1, 2 * N))
    ps = env.phases('in_ps', (1,))

    def expect(ts):
        g, p = gs[0], ps[0]
        for t in ts:
            g, p = ref.ref_transform(g, p, t[0], t[1])
        return g, p

    def action(circ):
        o = M.pa.PauliList(gs.copy(), ps.copy())
        circ.forward(o)
        return o

    def roundtrip_ok(circ, name):
        o = M.pa.PauliList(gs.copy(), ps.copy())
        r_ = env.run(lambda: circ.backward(circ.forward(o)))
        env.goal(name + '_backward_undoes_forward', b_and(b_not(r_.raised), b_and(arr_eq(o.gs, gs), arr_eq(o.ps, ps))))
        o2 = M.pa.PauliList(gs.copy(), ps.copy())
        r2_ = env.run(lambda: circ.forward(circ.backward(o2)))
        env.goal(name + '_forward_undoes_backward', b_and(b_not(r2_.raised), b_and(arr_eq(o2.gs, gs), arr_eq(o2.ps, ps))))
        env.goal(name + '_layer_chains_consistent', [id(l) for l in circ.layers_forward()] == [id(l) for l in circ.layers_backward()][::-1])
    if scenario == 'extend_total':
        total = M.ci.identity_circuit(N)
        res = env.run(lambda: (total.compose(part), total.take(gates[-1]), action(part), action(total)))
        env.goal('no_exception', b_not(res.raised))
        if res.value is not None:
            a, t = res.value[2], res.value[3]
            g, p = expect(tables[:-1])
            env.goal('part_keeps_its_action', b_and(arr_eq(a.gs[0], g), eq(a.ps[0], p)))
            g, p = expect(tables)
            env.goal('composite_is_part_then_gate', b_and(arr_eq(t.gs[0], g), eq(t.ps[0], p)))
        roundtrip_ok(part, 'part')
        roundtrip_ok(total, 'composite')
    elif scenario == 'extend_part':
        total = M.ci.identity_circuit(N)
        res = env.run(lambda: (total.compose(part), part.take(gates[-1]), action(part), action(total)))
        env.goal('no_exception', b_not(res.raised))
        if res.value is not None:
            a, t = res.value[2], res.value[3]
            g, p = expect(tables)
            env.goal('part_is_extended', b_and(arr_eq(a.gs[0], g), eq(a.ps[0], p)))
            g, p = expect(tables[:-1])
            env.goal('composite_unaffected', b_and(arr_eq(t.gs[0], g), eq(t.ps[0], p)))
        roundtrip_ok(part, 'part')
        roundtrip_ok(total, 'composite')
    elif scenario == 'repeat':
        total = M.ci.identity_circuit(N)
        res = env.run(lambda: (total.compose(part), total.compose(part), total.compose(part), action(total), action(part)))
        env.goal('no_exception', b_not(res.raised))
        if res.value is not None:
            t, a = res.value[3], res.value[4]
            g, p = expect(tables[:-1] * 3)
            env.goal('three_copies', b_and(arr_eq(t.gs[0], g), eq(t.ps[0], p)))
            g, p = expect(tables[:-1])
            env.goal('block_keeps_its_action', b_and(arr_eq(a.gs[0], g), eq(a.ps[0], p)))
            env.goal('block_gate_count', sum(len(l.gates) for l in part.layers_forward()) == len(places))
