"""C10  backward is the exact inverse of forward."""
import itertools
from .common import *
from .circuits import h_program_roundtrip
from .c09 import tuples

CLASS_LAYER = ['CliffordGate.forward/backward/compile (generator, forward map, backward map with lazy inversion)',
               'CliffordLayer.forward/backward/compile', 'CliffordCircuit.forward/backward/compile/take/copy/compose',
               'Circuit.forward/backward/compile', 'CliffordMap.inverse/compose/embed', 'Pauli.__neg__']
TV_KERNELS = ['clifford_rotate', 'pauli_transform', 'pauli_combine', 'ps0', 'z2inv']
BOUNDS = {'quick': 'program shapes enumerated, gate contents and the input (Pauli list with all four phases, or a state with rank) symbolic: single gates of every kind (generator / forward-map-only / backward-map-only with valid maps on <=2 qubits / named) at N<=2 in all configurations; 2- and 3-gate programs at N<=3 with generator, named and one-qubit map gates; both orders; uncompiled, layer-compiled, circuit-compiled; original / copy / composed halves; compile - modify - compile histories',
          'thorough': 'all 3-gate generator placements at N<=3 compiled; programs with a symbolic two-qubit map gate at N=3'}
OUTSIDE = 'several symbolic two-qubit map gates in one compiled circuit (follows the C09 ladder); N>3'
ASSUMPTIONS = ['symbolic map gates are valid maps; generators Hermitian']


def pre(tier):
    return dict(oracle_checked=ref.self_check(2))


ALLV = (('CliffordCircuit', 'orig'), ('CliffordCircuit', 'copy'), ('CliffordCircuit', 'compose'), ('Circuit', 'orig'))


def h_generator_reset(env, N, qubits, first, copy):
    """one gate object whose generator is replaced after it was already used (first: 'b' backward, 'f' forward, 'fb'):
    afterwards forward is the rotation by the NEW generator and backward undoes it (optionally on a copy of the gate)"""
    from .c04 import rotation_table
    from .circuits import ref_apply
    M = Mods(env)
    n = len(qubits)
    mask = [i in qubits for i in range(N)]
    g1 = env.bits('gen1', (2 * n,))
    s1 = env.signs('gen1_sign', (1,))[0]
    g2 = env.bits('gen2', (2 * n,))
    s2 = env.signs('gen2_sign', (1,))[0]
    gate = M.ci.CliffordGate(*qubits)
    gate.set_generator(M.pa.Pauli(g1.copy(), s1))
    xs = env.bits('x', (1, 2 * N))
    xp = env.phases('xp', (1,))
    warm = M.pa.PauliList(xs.copy(), xp.copy())
    for step in first:
        env.run(lambda: gate.forward(warm) if step == 'f' else gate.backward(warm))
    tgt = gate
    if copy:
        c = env.run(lambda: gate.copy())
        env.goal('copy_no_exception', b_not(c.raised))
        if c.value is None:
            return
        tgt = c.value
    r0 = env.run(lambda: tgt.set_generator(M.pa.Pauli(g2.copy(), s2)))
    env.goal('set_generator_no_exception', b_not(r0.raised))
    obj = M.pa.PauliList(xs.copy(), xp.copy())
    tab = rotation_table(embed_string(g2, mask, N), s2, N)
    r1 = env.run(lambda: tgt.forward(obj))
    ge, pe = ref_apply(tab, xs[0], xp[0])
    env.goal('forward_is_rotation_by_new_generator', b_and(b_not(r1.raised), b_and(arr_eq(obj.gs[0], ge), eq(obj.ps[0], pe))))
    r2 = env.run(lambda: tgt.backward(obj))
    env.goal('backward_undoes_forward', b_and(b_not(r2.raised), b_and(arr_eq(obj.gs[0], xs[0]), eq(obj.ps[0], xp[0]))))
    r3 = env.run(lambda: (tgt.backward(obj), tgt.forward(obj)))
    env.goal('forward_undoes_backward', b_and(b_not(r3.raised), b_and(arr_eq(obj.gs[0], xs[0]), eq(obj.ps[0], xp[0]))))


def jobs(tier):
    J = []
    for N, qubits in ((1, [0]), (2, [1]), (2, [0, 1]), (3, [0, 2])):
        for first in ('b', 'f', 'fb', ''):
            for copy in (False, True):
                if N == 3 and (copy or first == ''):
                    continue
                J.append(dict(harness=('c10', 'h_generator_reset'), params=dict(N=N, qubits=qubits, first=first, copy=copy), timeout_s=300, cost=8))
    R = ('circuits', 'h_program_roundtrip')
    thorough = tier == 'thorough'
    # single gates of every kind, every placement N<=2, all configurations and both orders
    for N in (1, 2):
        for q in tuples(N):
            kinds = ['gen', 'fmap', 'bmap'] + (['H', 'S', 'X', 'Y', 'Z', 'C7', 'C13', 'C22'] if len(q) == 1 else ['CNOT'])
            for kind in kinds:
                qs = [q] if kind != 'CNOT' else [q, q[::-1]]
                ismap = kind in ('fmap', 'bmap')
                for qq in qs:
                    for config in ('plain', 'layers', 'circuit'):
                        for order in ('fb', 'bf'):
                            for cls, variant in (ALLV if (ismap and config != 'plain' and (thorough or len(q) == 1)) else ALLV[::3]):
                                J.append(dict(harness=R, params=dict(N=N, prog=[[kind, qq]], config=config, cls=cls, variant=variant, order=order),
                                              timeout_s=600, cost=20 if ismap else 1))
                    if not ismap or len(q) == 1 or thorough:
                        J.append(dict(harness=R, params=dict(N=N, prog=[[kind, qq]], inp='state', r=N // 2), timeout_s=900, cost=30 if ismap else 3))
    progs = [(2, [['gen', [0]], ['gen', [0, 1]]]), (2, [['gen', [0, 1]], ['gen', [1]], ['gen', [0, 1]]]),
             (3, [['gen', [0, 1]], ['gen', [2]], ['gen', [0]]]), (3, [['gen', [0, 2]], ['gen', [1]], ['gen', [1, 2]]]),
             (2, [['H', [0]], ['S', [0]]]), (2, [['H', [0]], ['CNOT', [0, 1]], ['S', [1]]]), (3, [['CNOT', [0, 1]], ['CNOT', [2, 1]], ['S', [0]], ['H', [0]]]),
             (3, [['S', [2]], ['CNOT', [2, 0]], ['H', [2]], ['C9', [0]]]),
             (2, [['fmap', [0]], ['gen', [0, 1]], ['bmap', [1]]]), (2, [['bmap', [0]], ['fmap', [0]]]), (3, [['bmap', [1]], ['gen', [0, 2]], ['fmap', [2]]]),
             (2, [['fmap', [0, 1]], ['gen', [0]]]), (2, [['gen', [1]], ['bmap', [0, 1]]])]
    n_listed = len(progs)
    if thorough:
        for N in (2, 3):
            for places in itertools.product(tuples(N, 2), repeat=3):
                progs.append((N, [['gen', q] for q in places]))
        progs += [(3, [['fmap', [0, 2]], ['gen', [1, 2]], ['H', [0]]]), (3, [['gen', [0, 1]], ['bmap', [1, 2]]]), (3, [['bmap', [1]], ['gen', [0, 1, 2]], ['fmap', [2]]])]
    for k_prog, (N, prog) in enumerate(progs):
        swept = thorough and k_prog >= n_listed and all(k == 'gen' for k, q in prog) and len(prog) == 3      # exhaustive 3-gate placement sweep
        twoq = any(k in ('fmap', 'bmap') and len(q) == 2 for k, q in prog)
        anymap = any(k in ('fmap', 'bmap') for k, q in prog)
        heavy = N == 3 and sum(len(q) >= 2 for k, q in prog if k == 'gen') >= 2
        for config in ('plain', 'layers', 'circuit'):
            for order in ('fb', 'bf'):
                for cls, variant in ALLV:
                    if not thorough and config == 'circuit' and (twoq or (heavy and (variant != 'orig' or order == 'bf' or cls == 'Circuit'))):
                        continue
                    if thorough and N == 3 and twoq and config == 'circuit':
                        continue        # a symbolic two-qubit map compiled into a three-qubit circuit: phase conjunct beyond 900 s (measured)
                    if swept and (config == 'circuit' or (cls, variant) != ALLV[0]) and not (config == 'circuit' and (cls, variant) == ALLV[0] and order == 'fb' and not heavy):
                        continue        # the sweep runs plain + layer-compiled on the original circuit; the listed programs carry the other variants
                    J.append(dict(harness=R, params=dict(N=N, prog=prog, config=config, cls=cls, variant=variant, order=order),
                                  timeout_s=900, cost=40 if config == 'circuit' else 5))
        if len(prog) >= 2 and not twoq and (thorough or not heavy) and not (swept and k_prog % 9):
            # histories: compile, add gates, compile again, then run backward/forward
            for config in ('layers', 'circuit'):
                for cls, variant in ALLV[:2] + ALLV[3:]:
                    for k in (1, len(prog) - 1):
                        J.append(dict(harness=R, params=dict(N=N, prog=prog, config=config, cls=cls, variant=variant, order='fb', recompile=k),
                                      timeout_s=900, cost=40))
        if (not anymap or thorough) and not (swept and k_prog % 9):
            J.append(dict(harness=R, params=dict(N=N, prog=prog, inp='state', r=1, config='circuit' if not (heavy or twoq) else 'plain'), timeout_s=900, cost=40))
    # histories around compose (shared with C09): backward must undo forward for BOTH circuits afterwards
    for N in (2, 3):
        for places in ([[0, 1]], [[0], [0, 1]], [[0, 1], [1]]) + (([[0, 1], [1, 2]], [[0, 2], [1]]) if N == 3 else ()):
            for extra in ([0], [0, 1], [N - 1]):
                for scenario in ('extend_total', 'extend_part'):
                    J.append(dict(harness=('circuits', 'h_compose_history'), params=dict(N=N, places=places, extra=extra, scenario=scenario), timeout_s=300, cost=5))
    return J
