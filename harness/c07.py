"""C07  Expectations, overlaps and bit-string probabilities equal the trace formulas."""
import itertools
import numpy as np
from .common import *
from .tableau import sym_state, mk_state
from symclif.values import parts, SDyad

CLASS_LAYER = ['StabilizerState.expect (Pauli / PauliMonomial / PauliPolynomial / PauliList / StabilizerState arms)',
               'StabilizerState.get_prob', 'Pauli.as_polynomial', 'PauliMonomial.as_polynomial', 'identity_map', 'CliffordMap.to_state']
TV_KERNELS = ['stabilizer_expect', 'stabilizer_projection_trace', 'acq', 'ipow']
BOUNDS = {'quick': 'arbitrary Inv state(s), N<=2, every rank; lists L<=2; polynomials <=2 terms with phases 0..3 and symbolic Gaussian-integer coefficients; overlaps: rho pure x sigma of every rank, both tableaux symbolic; get_prob: symbolic readout bits',
          'thorough': 'plus lists and polynomials at N=3 (64-way split on the observable string); overlaps N=3 as stretch'}
OUTSIDE = 'floating-point rounding of non-dyadic coefficients; get_prob / state overlap on a mixed receiver raise NotImplementedError (explicitly unsupported by the library, checked as such); N beyond the bound'
ASSUMPTIONS = ['states satisfy Inv', 'list observables Hermitian (documented: Tr(rho P) in {-1,0,1})',
               'coefficients are Gaussian integers with |re|,|im|<=3 so every identity is exact',
               'float results (trace, 2**-r) are dyadic rationals']


def pre(tier):
    return dict(oracle_checked=ref.self_check(2))


def h_expect_list(env, N, r, L, fix=None, dtype='int64'):
    M = Mods(env)
    gs, ps = sym_state(env, N)
    go = env.bits('obs', (L, 2 * N)) if fix is None else env.const(fix)
    po = env.signs('obs_sign', (L,))
    state = mk_state(M, env, gs, ps, r)
    obs = M.pa.PauliList(as_dtype(env, go, dtype), as_dtype(env, po, dtype))
    res = env.run(lambda: state.expect(obs))
    env.goal('no_exception', b_not(res.raised))
    if res.value is not None:
        xs = res.value
        env.goal('length', len(xs) == L)
        for k in range(min(L, len(xs))):
            env.goal('expectation[%d]' % k, eq(xs[k], ref.ref_expect(gs, ps, r, N, go[k], po[k])))
    env.goal('state_unchanged', AND([arr_eq(state.gs, gs), arr_eq(state.ps, ps), eq(state.r, r)]))
    env.goal('argument_unchanged', b_and(arr_eq(obs.gs, go), arr_eq(obs.ps, po)))


def _weighted(gs, ps, r, N, terms):
    """sum_k c_k i^p_k Tr(rho sigma_k) as (re, im); terms = [(g, p, (c_re, c_im))]"""
    re, im = 0, 0
    for g, p, (cr, ci) in terms:
        e = ref.ref_expect(gs, ps, r, N, g, 0)           # Tr(rho sigma_k) for the bare string
        # multiply (cr + i ci) by i^p
        pr = ite(eq(p, 0), cr, ite(eq(p, 1), -ci, ite(eq(p, 2), -cr, ci)))
        pi = ite(eq(p, 0), ci, ite(eq(p, 1), cr, ite(eq(p, 2), -ci, -cr)))
        re = re + e * pr
        im = im + e * pi
    return re, im


def h_expect_poly(env, N, r, kind, T=2):
    """expect(Pauli | PauliMonomial | PauliPolynomial) = sum_k c_k i^p_k Tr(rho sigma_k), imaginary parts included"""
    M = Mods(env)
    gs, ps = sym_state(env, N)
    state = mk_state(M, env, gs, ps, r)
    if kind == 'pauli':
        g = env.bits('g', (1, 2 * N))
        p = env.phases('p', (1,))
        obj = M.pa.Pauli(g[0].copy(), p[0])
        terms = [(g[0], p[0], (1, 0))]
    elif kind == 'monomial':
        g = env.bits('g', (1, 2 * N))
        p = env.phases('p', (1,))
        cr = env.ints('c_re', (1,), 0, 6)
        ci = env.ints('c_im', (1,), 0, 6)
        c = _coef(env, cr[0] - 3, ci[0] - 3)
        obj = M.pa.PauliMonomial(g[0].copy(), p[0]).set_c(c)
        terms = [(g[0], p[0], (cr[0] - 3, ci[0] - 3))]
    else:
        g = env.bits('g', (T, 2 * N))
        p = env.phases('p', (T,))
        cr = env.ints('c_re', (T,), 0, 6)
        ci = env.ints('c_im', (T,), 0, 6)
        cs = _coef_array(env, [(cr[k] - 3, ci[k] - 3) for k in range(T)])
        obj = M.pa.PauliPolynomial(g.copy(), p.copy()).set_cs(cs)
        terms = [(g[k], p[k], (cr[k] - 3, ci[k] - 3)) for k in range(T)]
    er, ei = _weighted(gs, ps, r, N, terms)
    for rnd in ('', 'second_evaluation_'):       # the same observable object evaluated twice
        res = env.run(lambda: state.expect(obj))
        env.goal(rnd + 'no_exception', b_not(res.raised))
        if res.value is not None:
            vr, vi = parts(res.value)
            env.goal(rnd + 'real_part', eq(vr, er))
            env.goal(rnd + 'imaginary_part', eq(vi, ei))
    env.goal('state_unchanged', AND([arr_eq(state.gs, gs), arr_eq(state.ps, ps), eq(state.r, r)]))
    if kind == 'poly':
        env.goal('observable_unchanged', AND([arr_eq(obj.gs, g), arr_eq(obj.ps, p)] + [b_and(eq(parts(obj.cs[k])[0], cr[k] - 3), eq(parts(obj.cs[k])[1], ci[k] - 3)) for k in range(T)]))
    elif kind == 'pauli':
        env.goal('observable_unchanged', b_and(arr_eq(obj.g, g[0]), eq(obj.p, p[0])))


def _coef(env, re, im):
    if env.symbolic:
        from symclif.values import SC
        return SC(re, im).norm()
    return complex(int(re), int(im))


def _coef_array(env, pairs):
    if env.symbolic:
        from symclif.shim_numpy import S
        a = np.empty(len(pairs), dtype=object)
        for k, (re, im) in enumerate(pairs):
            a[k] = _coef(env, re, im)
        return S(a)
    return np.array([complex(int(re), int(im)) for re, im in pairs])


def h_overlap(env, N, r_sigma, r_rho=0):
    """pure rho: rho.expect(sigma) = Tr(rho sigma) = 2^-N sum_{g in group(sigma)} Tr(rho g); both tableaux symbolic"""
    M = Mods(env)
    g1, p1 = sym_state(env, N, 'rho')
    g2, p2 = sym_state(env, N, 'sigma')
    rho = mk_state(M, env, g1, p1, r_rho)
    sig = mk_state(M, env, g2, p2, r_sigma)
    res = env.run(lambda: rho.expect(sig))
    if r_rho != 0:
        env.goal('mixed_receiver_refused', res.raised_kind('NotImplementedError'))
    else:
        env.goal('no_exception', b_not(res.raised))
        if res.value is not None:
            tot = 0
            for (gg, pp) in ref.group(g2[r_sigma:N], p2[r_sigma:N]):
                tot = tot + ref.ref_expect(g1, p1, 0, N, gg, pp)
            env.goal('overlap', eq(res.value * (2 ** N), tot))
    env.goal('receiver_unchanged', AND([arr_eq(rho.gs, g1), arr_eq(rho.ps, p1), eq(rho.r, r_rho)]))
    env.goal('argument_unchanged', AND([arr_eq(sig.gs, g2), arr_eq(sig.ps, p2), eq(sig.r, r_sigma)]))


def h_get_prob(env, N, r):
    """get_prob(b) = <b|rho|b> for symbolic readout bits; the 2^N probabilities sum to one (all through the real code)"""
    M = Mods(env)
    gs, ps = sym_state(env, N)
    b = env.bits('readout', (N,))
    state = mk_state(M, env, gs, ps, r)
    res = env.run(lambda: state.get_prob(b.copy()))
    if r != 0:
        env.goal('mixed_receiver_refused', res.raised_kind('NotImplementedError'))
        return
    env.goal('no_exception', b_not(res.raised))
    if res.value is not None:
        # |b><b| = 2^-N sum_s (-1)^(b.s) Z^s
        tot = 0
        for s in itertools.product((0, 1), repeat=N):
            g = oarr([v for k in range(N) for v in (0, s[k])])
            sign = sum((b[k] * s[k] for k in range(N)), 0) % 2
            tot = tot + ref.ref_expect(gs, ps, 0, N, g, 2 * sign)
        env.goal('probability', eq(res.value * (2 ** N), tot))
        env.goal('in_unit_interval', b_and(compare('>=', res.value, 0), compare('<=', res.value, 1)))
    env.goal('state_unchanged', AND([arr_eq(state.gs, gs), arr_eq(state.ps, ps), eq(state.r, r)]))
    # normalisation through the real code: sum over all bit strings
    total = 0
    okall = True
    for bits in itertools.product((0, 1), repeat=N):
        rr = env.run(lambda: state.get_prob(env.const(list(bits))))
        if rr.value is None:
            okall = False
            break
        total = total + rr.value
    env.goal('probabilities_sum_to_one', b_and(okall, eq(total, 1)))
    bad = env.run(lambda: state.get_prob(env.const([0] * (N + 1))))
    env.goal('wrong_length_rejected', bad.raised_kind('ValueError'))


def h_self_queries(env, N, r):
    """a state queried with observables derived from itself: its own stabilizer list (a view of its tableau), itself as
    the overlap argument, a copy of itself; twice in a row; the state is unchanged by all of it"""
    M = Mods(env)
    gs, ps = sym_state(env, N)
    state = mk_state(M, env, gs, ps, r)
    for rnd in (1, 2):
        res = env.run(lambda: state.expect(state.stabilizers))
        env.goal('own_stabilizers_no_exception_%d' % rnd, b_not(res.raised))
        if res.value is not None:
            ok = np.shape(res.value) == (N - r,)
            env.goal('own_stabilizers_shape_%d' % rnd, ok)
            if ok:
                env.goal('own_stabilizers_have_expectation_one_%d' % rnd, AND(eq(res.value[k], 1) for k in range(N - r)))
        whole = env.run(lambda: state.expect(state[0:2 * N]))
        if whole.value is not None and np.shape(whole.value) == (2 * N,):
            for k in range(2 * N):
                env.goal('tableau_row%d_expectation_%d' % (k, rnd), eq(whole.value[k], ref.ref_expect(gs, ps, r, N, gs[k], ps[k])))
        else:
            env.goal('tableau_rows_no_exception_%d' % rnd, False)
        if r == 0:
            for name, arg in (('itself', lambda: state), ('its_copy', lambda: state.copy())):
                ov = env.run(lambda: state.expect(arg()))
                env.goal('overlap_with_%s_is_one_%d' % (name, rnd), b_and(b_not(ov.raised), eq(ov.value, 1) if ov.value is not None else False))
        env.goal('state_unchanged_%d' % rnd, AND([arr_eq(state.gs, gs), arr_eq(state.ps, ps), eq(state.r, r)]))


def h_get_prob_forms(env, N, form):
    """readout given as a boolean array / numpy int8 / uint8 array (the dtype of utils.binary_repr rows; unsigned
    arithmetic wraps); the same readout object used twice"""
    M = Mods(env)
    gs, ps = sym_state(env, N)
    b = env.bits('readout', (N,))
    state = mk_state(M, env, gs, ps, 0)
    if env.symbolic:
        from symclif.shim_numpy import S, as_unsigned
        arg = S(np.array([eq(x, 1) for x in b], dtype=object)) if form == 'bool' else (as_unsigned(b) if form == 'uint8' else b.copy())
    else:
        arg = np.array([int(x) for x in b], dtype={'bool': bool, 'int8': np.int8, 'uint8': np.uint8}[form])
    tot = 0
    for s in itertools.product((0, 1), repeat=N):
        g = oarr([v for k in range(N) for v in (0, s[k])])
        sign = sum((b[k] * s[k] for k in range(N)), 0) % 2
        tot = tot + ref.ref_expect(gs, ps, 0, N, g, 2 * sign)
    for rnd in (1, 2):
        res = env.run(lambda: state.get_prob(arg))
        env.goal('no_exception_%d' % rnd, b_not(res.raised))
        if res.value is not None:
            env.goal('probability_%d' % rnd, eq(res.value * (2 ** N), tot))
    env.goal('state_unchanged', AND([arr_eq(state.gs, gs), arr_eq(state.ps, ps), eq(state.r, 0)]))


def jobs(tier):
    J = []
    for N in (1, 2):
        for r in range(N + 1):
            J.append(dict(harness=('c07', 'h_expect_list'), params=dict(N=N, r=r, L=2), timeout_s=300, cost=5))
            J.append(dict(harness=('c07', 'h_expect_list'), params=dict(N=N, r=r, L=2, dtype='uint8'), timeout_s=300, cost=5))
            for kind in ('pauli', 'monomial', 'poly'):
                J.append(dict(harness=('c07', 'h_expect_poly'), params=dict(N=N, r=r, kind=kind), timeout_s=300, cost=10))
            J.append(dict(harness=('c07', 'h_get_prob'), params=dict(N=N, r=r), timeout_s=300, cost=10))
            J.append(dict(harness=('c07', 'h_overlap'), params=dict(N=N, r_sigma=r), timeout_s=600, cost=60 * N))
        J.append(dict(harness=('c07', 'h_overlap'), params=dict(N=N, r_sigma=0, r_rho=1)))
        for r in range(N + 1):
            J.append(dict(harness=('c07', 'h_self_queries'), params=dict(N=N, r=r), timeout_s=300, cost=20))
        for form in ('bool', 'int8', 'uint8'):
            J.append(dict(harness=('c07', 'h_get_prob_forms'), params=dict(N=N, form=form), timeout_s=300, cost=10))
    if tier == 'thorough':
        for fix in itertools.product((0, 1), repeat=6):
            for r in range(4):
                J.append(dict(harness=('c07', 'h_expect_list'), params=dict(N=3, r=r, L=1, fix=[list(fix)]), timeout_s=300,
                              label='split64:h_expect_list[N=3,r=%d,obs=%s]' % (r, ''.join(map(str, fix)))))
        J.append(dict(harness=('c07', 'h_get_prob'), params=dict(N=3, r=0), timeout_s=300, wall_s=1200, cost=100, claimed=False, label='stretch:h_get_prob{"N": 3}'))
    return J
