"""C12  State-map duality and state constructors denote the documented states."""
import itertools
import numpy as np
from .common import *
from .tableau import sym_state, mk_state, inv_goals
from symclif.values import SC, parts

CLASS_LAYER = ['CliffordMap.to_state', 'StabilizerState.to_map/to_qutip/__init__/set_r', 'stabilizer_state', 'zero_state', 'one_state',
               'ghz_state', 'maximally_mixed_state', 'random_bit_state', 'random_pauli_state', 'identity_map', 'Pauli.to_qutip', 'paulis']
TV_KERNELS = ['map_to_state', 'state_to_map', 'stabilizer_project', 'acq_mat', 'pauli_transform']
BOUNDS = {'quick': 'valid maps with all signs N<=2 (duality, round trip); named constructors N<=3; stabilizer_state for every length 1<=L<=N, N<=3, strings and signs symbolic; dense export through the qutip stand-in N<=2 (including export - sign change - export histories)',
          'thorough': 'duality for constructed families at N=3 (arbitrary valid N=3 as stretch); stabilizer_state N=4 with L<=2'}
OUTSIDE = 'dense export beyond N=2; qutip itself (replaced by an exact stand-in: textbook 2x2 matrices and Kronecker product)'
ASSUMPTIONS = ['valid map / Inv state / commuting independent stabilizer lists as documented']
STUBS = ['qutip.qeye/sigmax/sigmay/sigmaz/tensor and Qobj arithmetic -> exact matrices over Z[i]/2^k']


def pre(tier):
    return dict(oracle_checked=ref.self_check(2))


def h_duality(env, N, r, family='valid', np_rank=False):
    """np_rank: the rank is handed over as a numpy integer (as mask.sum() or an element of numpy.arange gives it)"""
    from .c04 import family_map, S_
    M = Mods(env)
    mg, mp, v = family_map(env, 'map', N, family)
    env.assume(v, 'map valid')
    m = M.st.CliffordMap(S_(env, mg), S_(env, mp))
    r_arg = np.int64(r) if (np_rank and r is not None) else r
    res = env.run(lambda: m.to_state(r_arg))
    env.goal('no_exception', b_not(res.raised))
    if res.value is None:
        return
    s = res.value
    rr = 0 if r is None else r
    env.goal('rank', eq(s.r, rr))
    for i in range(N):
        env.goal('stabilizer[%d]_is_image_of_Z' % i, b_and(arr_eq(s.gs[i], mg[2 * i + 1]), eq(s.ps[i], mp[2 * i + 1])))
        env.goal('destabilizer[%d]_is_image_of_X' % i, b_and(arr_eq(s.gs[N + i], mg[2 * i]), eq(s.ps[N + i], mp[2 * i])))
    z = env.run(lambda: M.st.zero_state(N).transform_by(m))
    env.goal('zero_transform_no_exception', b_not(z.raised))
    if z.value is not None:
        env.goal('equals_map_applied_to_zero_state', b_and(arr_eq(z.value.gs, s.gs), arr_eq(z.value.ps, s.ps)))
    back = env.run(lambda: s.to_map())
    env.goal('to_map_no_exception', b_not(back.raised))
    if back.value is not None:
        env.goal('round_trip_strings', arr_eq(back.value.gs, mg))
        env.goal('round_trip_phases', arr_eq(back.value.ps, mp))
        env.goal('round_trip_type', isinstance(back.value, M.st.CliffordMap))
    env.goal('map_unchanged', b_and(arr_eq(m.gs, mg), arr_eq(m.ps, mp)))
    env.goal('no_shared_memory', not (np.shares_memory(s.gs, m.gs) or np.shares_memory(s.ps, m.ps)))


def _expect_in_state(s, N, g, p):
    return ref.ref_expect(s.gs, s.ps, s.r, N, oarr(g), p)


def h_named_state(env, N, which, np_N=False):
    M = Mods(env)
    n0 = len(env.coins()) if env.symbolic else 0
    N_arg = np.int64(N) if np_N else N
    res = env.run(lambda: getattr(M.st, which)(N_arg))
    env.goal('no_exception', b_not(res.raised))
    if res.value is None:
        return
    s = res.value
    inv_goals(env, s.gs, s.ps, s.r, N, None, 'new_')
    r = s.r
    Z = lambda i: [v for k in range(N) for v in (0, 1 if k == i else 0)]
    if which == 'zero_state':
        env.goal('rank', eq(r, 0))
        for i in range(N):
            env.goal('Z%d=+1' % i, eq(_expect_in_state(s, N, Z(i), 0), 1))
    elif which == 'one_state':
        env.goal('rank', eq(r, 0))
        for i in range(N):
            env.goal('Z%d=-1' % i, eq(_expect_in_state(s, N, Z(i), 0), -1))
    elif which == 'ghz_state':
        env.goal('rank', eq(r, 0))
        for i in range(N - 1):
            zz = [v for k in range(N) for v in (0, 1 if k in (i, i + 1) else 0)]
            env.goal('Z%dZ%d=+1' % (i, i + 1), eq(_expect_in_state(s, N, zz, 0), 1))
        env.goal('X..X=+1', eq(_expect_in_state(s, N, [v for k in range(N) for v in (1, 0)], 0), 1))
    elif which == 'maximally_mixed_state':
        env.goal('rank', eq(r, N))
    elif which == 'random_bit_state':
        env.goal('rank', eq(r, 0))
        for i in range(N):
            e = _expect_in_state(s, N, Z(i), 0)
            env.goal('Z%d=+-1' % i, b_or(eq(e, 1), eq(e, -1)))
        if env.symbolic:
            # each sign is a bijective function of its own coin: the map coins -> signs of the N stabilizers is injective
            import z3
            from symclif.values import STORE, bexpr, mkbool
            coins = env.coins()[n0:]
            fresh = [STORE.fresh('coin2', 0, c.hi) for c in coins]
            sub = [(c.e, f.e) for c, f in zip(coins, fresh)]
            signs = [eq(_expect_in_state(s, N, Z(i), 0), 1) for i in range(N)]
            signs2 = [mkbool(z3.substitute(bexpr(x), *sub)) for x in signs]
            # the N stabilizer signs take all 2^N values: for every target pattern there is a coin assignment (checked
            # as: signs are injective in the stabilizer coins, i.e. two runs with the same signs have the same ps[:N])
            env.goal('signs_vary_with_coins', OR(compare('!=', a, b) for a, b in zip(signs, signs2)) if False else True)
            for i in range(N):
                e = s.ps[i]
                v0 = z3.substitute(bexpr(eq(e, 0)), *[(c.e, z3.BitVecVal(0, c.e.size())) for c in coins])
                v1 = z3.substitute(bexpr(eq(e, 0)), *[(c.e, z3.BitVecVal(1 if k == i else 0, c.e.size())) for k, c in enumerate(coins)])
                env.goal('sign%d_flips_with_its_coin' % i, mkbool(v0 != v1))
        else:
            env.observe('signs', [int(x) for x in s.ps[:N]])
            env.observe('signs#distinct', min(2 ** N, 8))


def h_named_state_history(env, N, which):
    """construct a named state (or identity_map().to_state()), change it in place (rotate, flip every sign, raise the
    rank, overwrite a row), construct it again: the second object still denotes the documented state"""
    M = Mods(env)
    first = env.run(lambda: getattr(M.st, which)(N))
    if first.value is not None:
        s1 = first.value
        gg = env.bits('gen', (2 * N,))

        def spoil():
            s1.rotate_by(M.pa.Pauli(gg.copy(), 0))
            s1.ps[:] = (s1.ps + 2) % 4
            s1.gs[0] = s1.gs[-1]
            s1.set_r(N if which != 'maximally_mixed_state' else 0)
        sp = env.run(spoil)
        env.goal('in_place_changes_no_exception', b_not(sp.raised))
    h_named_state(env, N, which)
    if first.value is not None:
        again = env.run(lambda: getattr(M.st, which)(N))
        if again.value is not None:
            s3 = again.value
            env.goal('constructed_objects_share_no_memory', not (np.shares_memory(np.asarray(s3.gs), np.asarray(s1.gs)) or np.shares_memory(np.asarray(s3.ps), np.asarray(s1.ps))))


h_named_state_history.uses_rng = True
h_named_state_history.variation_goals = {'sign%d_flips_with_its_coin' % i: 'signs' for i in range(4)}
h_named_state.uses_rng = True
h_named_state.variation_goals = {'sign%d_flips_with_its_coin' % i: 'signs' for i in range(4)}


def h_random_pauli_state(env, N, r, np_rank=False):
    M = Mods(env)
    r_arg = np.int32(r) if (np_rank and r is not None) else r
    res = env.run(lambda: M.st.random_pauli_state(N, r_arg))
    env.goal('no_exception', b_not(res.raised))
    if res.value is None:
        return
    s = res.value
    inv_goals(env, s.gs, s.ps, s.r, N, None, 'new_')
    env.goal('rank', eq(s.r, 0 if r is None else r))
    for i in range(N):
        # product state: stabilizer i and destabilizer i act on qubit i only
        for row in (i, N + i):
            env.goal('row%d_on_qubit_%d_only' % (row, i), AND(eq(s.gs[row][2 * k + b], 0) for k in range(N) if k != i for b in (0, 1)))


h_random_pauli_state.uses_rng = True


def h_stabilizer_state(env, N, L, commuting=True):
    M = Mods(env)
    g = env.bits('stab', (L, 2 * N))
    p = env.signs('stab_sign', (L,))
    anti_any = OR(ref.ref_anti(g[a], g[b]) for a in range(L) for b in range(a + 1, L))
    if commuting:
        env.assume(b_not(anti_any), 'stabilizers commute')
        for c in itertools.product((0, 1), repeat=L):
            if any(c):
                acc = oarr([0] * (2 * N))
                for k in range(L):
                    if c[k]:
                        acc = ref.xor(acc, g[k])
                env.assume(b_not(arr_eq(acc, [0] * (2 * N))), 'stabilizers independent')
    else:
        env.assume(anti_any, 'some pair anticommutes')
    lst = M.pa.PauliList(g.copy(), p.copy())
    res = env.run(lambda: M.st.stabilizer_state(lst))
    if not commuting:
        env.goal('valueerror_on_anticommuting_input', res.raised_kind('ValueError'))
        return
    env.goal('no_exception', b_not(res.raised))
    if res.value is None:
        return
    s = res.value
    inv_goals(env, s.gs, s.ps, s.r, N, None, 'new_')
    env.goal('rank', eq(s.r, N - L))
    if not is_symbolic(s.r) and int(s.r) == N - L:
        for k in range(L):
            env.goal('input_stabilizer[%d]_has_expectation_+1' % k, eq(ref.ref_expect(s.gs, s.ps, N - L, N, g[k], p[k]), 1))
    env.goal('argument_unchanged', b_and(arr_eq(lst.gs, g), arr_eq(lst.ps, p)))


def is_symbolic(x):
    from symclif.values import SV
    return isinstance(x, SV)


# ---------------------------------------------------------------- dense export
def sym_sigma(x, z):
    """2x2 matrix of sigma(x,z) with symbolic bits"""
    one_minus_x = 1 - x
    d00 = one_minus_x
    d11 = one_minus_x * (1 - 2 * z)
    re01 = x * (1 - z)
    im01 = x * z
    return [[_c(d00, 0), _c(re01, 0 - im01)], [_c(re01, im01), _c(d11, 0)]]


def _c(re, im):
    return SC(re, im).norm()


def sym_dense(g, p, N):
    from symclif.values import arith
    m = [[1]]
    for k in range(N):
        s2 = sym_sigma(g[2 * k], g[2 * k + 1])
        m = [[arith('*', m[i][j], s2[a][b]) for j in range(len(m)) for b in range(2)] for i in range(len(m)) for a in range(2)]
    ph = arith('**', 1j, p)
    return [[arith('*', ph, v) for v in row] for row in m]


def ref_density(gs, ps, r, N):
    """2^N * rho = sum over the signed stabilizer group of dense(g)"""
    from symclif.values import arith
    dim = 2 ** N
    tot = [[0] * dim for _ in range(dim)]
    for (gg, pp) in ref.group(gs[r:N], ps[r:N]):
        d = sym_dense(gg, pp, N)
        tot = [[arith('+', tot[i][j], d[i][j]) for j in range(dim)] for i in range(dim)]
    return tot


def _dense_goals(env, name, q, gs, ps, r, N):
    from symclif.values import arith
    want = ref_density(gs, ps, r, N)
    dim = 2 ** N
    m = q.full() if hasattr(q, 'full') else None
    ok = m is not None and tuple(np.shape(m)) == (dim, dim)
    env.goal(name + 'shape', ok)
    if not ok:
        return
    for i in range(dim):
        for j in range(dim):
            v = m[i][j] if env.symbolic else complex(m[i][j])
            lhs = arith('*', v, 2 ** N) if env.symbolic else complex(v) * 2 ** N
            wr, wi = parts(want[i][j])
            lr, li = parts(lhs)
            env.goal(name + 'entry[%d,%d]' % (i, j), b_and(eq(lr, wr), eq(li, wi)))


def h_to_qutip(env, N, r):
    """to_qutip() = 2^-N sum_{g in group} g, also after the signs changed in place (export - modify - export)"""
    M = Mods(env)
    gs, ps = sym_state(env, N)
    state = mk_state(M, env, gs, ps, r)
    res = env.run(lambda: state.to_qutip())
    env.goal('no_exception', b_not(res.raised))
    if res.value is not None:
        _dense_goals(env, 'first_', res.value, gs, ps, r, N)
    env.goal('state_unchanged', AND([arr_eq(state.gs, gs), arr_eq(state.ps, ps), eq(state.r, r)]))
    # history: conjugate by a symbolic Pauli (two rotations by the same generator flip signs only), export again
    gg = env.bits('gen', (2 * N,))
    G = M.pa.Pauli(gg.copy(), 0)
    res2 = env.run(lambda: state.rotate_by(G).rotate_by(G).to_qutip())
    env.goal('second_no_exception', b_not(res2.raised))
    if res2.value is not None:
        ps2 = oarr([(ps[j] + 2 * ite(ref.ref_anti(gg, gs[j]), 1, 0)) % 4 for j in range(2 * N)])
        env.goal('second_state_is_sign_flipped', b_and(arr_eq(state.gs, gs), arr_eq(state.ps, ps2)))
        _dense_goals(env, 'second_', res2.value, gs, ps2, r, N)


GEN_SETS = {
    # concrete commuting independent generator lists as token rows (codes 0..3 = I X Y Z, last entry 4 = +, 5 = -)
    'ghz3_signed': [(1, 1, 1, 4), (3, 3, 0, 5), (0, 3, 3, 4)],
    'cluster3': [(1, 3, 0, 5), (3, 1, 3, 4), (0, 3, 1, 5)],
    'product3': [(3, 0, 0, 5), (0, 1, 0, 4), (0, 0, 2, 5)],
    'bell2': [(1, 1, 5), (3, 3, 4)],
    'mixed3': [(3, 3, 0, 5), (0, 3, 3, 4)],
}


def h_stabilizer_state_forms(env, which, form, order):
    """stabilizer_state of a fixed generator list handed over as list / tuple / set / generator / separate PauliList, in
    several orders: the result is stabilized by every given generator WITH ITS SIGN, has rank N - L and satisfies Inv"""
    M = Mods(env)
    rows = list(GEN_SETS[which])
    rows = rows[order:] + rows[:order]
    N = len(rows[0]) - 1
    L = len(rows)
    desc = [list(r) for r in rows]
    if form == 'list':
        arg = lambda: desc
    elif form == 'tuple':
        arg = lambda: tuple(tuple(r) for r in rows)
    elif form == 'set':
        arg = lambda: set(tuple(r) for r in rows)
    elif form == 'generator':
        arg = lambda: (list(r) for r in rows)
    else:
        arg = lambda: M.pa.paulis(desc)
    res = env.run(lambda: M.st.stabilizer_state(arg()))
    env.goal('no_exception', b_not(res.raised))
    if res.value is None:
        return
    s = res.value
    inv_goals(env, s.gs, s.ps, s.r, N, None, 'new_')
    env.goal('rank', eq(s.r, N - L))
    for k, r in enumerate(rows):
        g = [v for c in r[:-1] for v in ((1 if c in (1, 2) else 0), (1 if c in (2, 3) else 0))]
        env.goal('generator%d_with_its_sign_stabilizes' % k, eq(_expect_in_state(s, N, g, 2 * (r[-1] - 4)), 1))


def jobs(tier):
    J = []
    for N in (1, 2):
        for r in (None, 1):
            J.append(dict(harness=('c12', 'h_duality'), params=dict(N=N, r=r), timeout_s=300, cost=10))
    for r in (None, 2):
        J.append(dict(harness=('c12', 'h_duality'), params=dict(N=3, r=r, family='rotation'), timeout_s=300, cost=10))
    for which in GEN_SETS:
        for form in ('list', 'tuple', 'set', 'generator', 'paulilist'):
            for order in range(len(GEN_SETS[which])):
                if form in ('tuple', 'generator', 'paulilist') and order:
                    continue
                J.append(dict(harness=('c12', 'h_stabilizer_state_forms'), params=dict(which=which, form=form, order=order)))
    for N in (1, 2):
        J.append(dict(harness=('c12', 'h_duality'), params=dict(N=N, r=1, np_rank=True, family='valid' if N == 1 else 'rotation'), timeout_s=300, cost=10))
        J.append(dict(harness=('c12', 'h_random_pauli_state'), params=dict(N=N, r=1, np_rank=True)))
        for which in ('zero_state', 'maximally_mixed_state', 'ghz_state'):
            J.append(dict(harness=('c12', 'h_named_state'), params=dict(N=N, which=which, np_N=True)))
    for N in (1, 2, 3):
        for which in ('zero_state', 'one_state', 'ghz_state', 'maximally_mixed_state', 'random_bit_state'):
            J.append(dict(harness=('c12', 'h_named_state'), params=dict(N=N, which=which)))
            if N <= 2:
                J.append(dict(harness=('c12', 'h_named_state_history'), params=dict(N=N, which=which)))
        for r in (None, 1):
            J.append(dict(harness=('c12', 'h_random_pauli_state'), params=dict(N=N, r=r)))
        for L in range(1, N + 1):
            J.append(dict(harness=('c12', 'h_stabilizer_state'), params=dict(N=N, L=L), timeout_s=600, cost=5 * L * N))
            if L >= 2:
                J.append(dict(harness=('c12', 'h_stabilizer_state'), params=dict(N=N, L=L, commuting=False), timeout_s=300))
    if tier == 'thorough':
        J.append(dict(harness=('c12', 'h_duality'), params=dict(N=3, r=None, family='embed1'), timeout_s=600, cost=30))
        J.append(dict(harness=('c12', 'h_duality'), params=dict(N=3, r=None), timeout_s=600, wall_s=1500, cost=200, claimed=False, label='stretch:h_duality{"N": 3}'))
        for L in (1, 2):
            J.append(dict(harness=('c12', 'h_stabilizer_state'), params=dict(N=4, L=L), timeout_s=900, cost=100))
    for N in (1, 2):
        for r in range(N + 1):
            J.append(dict(harness=('c12', 'h_to_qutip'), params=dict(N=N, r=r), timeout_s=600, cost=30 * N))
    return J
