"""C01  Pauli multiplication is exact (strings, phases, commutation)."""
import numpy as np
from .common import *

CLASS_LAYER = ['Pauli.__matmul__', 'PauliPolynomial.__matmul__', 'Pauli.as_polynomial', 'Pauli.as_monomial', 'Pauli.rotate_by / transform_by followed by products (cast-update-product histories)']
TV_KERNELS = ['ipow', 'acq', 'acq_mat', 'p0', 'ps0', 'batch_dot']
BOUNDS = {'quick': 'N<=3 (all strings, all four phases of both operands symbolic); acq_mat / batch_dot lists L<=2',
          'thorough': 'N<=5 (associativity N<=3; N=4 as stretch: its phase conjunct times out at 120 s); lists L<=3; chains of 4 factors'}
OUTSIDE = 'ill-formed inputs (entries not 0/1, phases outside 0..3); N beyond the bound; torchclifford (see C13)'
ASSUMPTIONS = ['operands are well formed: string entries in {0,1}, phase indicator in 0..3',
               'trusted base: sigma(x,z)=i^(xz)X^xZ^z and the 16-entry single-qubit product table computed from 2x2 '
               'matrices at start-up (validated against dense matrices for N<=2 on every run)']


def pre(tier):
    return dict(oracle_checked=ref.self_check(2))


def h_matmul(env, N, dtype='int64'):
    """Pauli.__matmul__ == reference product; acq == reference anticommutation; no drift (one inductive step).
    dtype: element type of the operands' string arrays (uint8: rows of utils.binary_repr; unsigned arithmetic wraps)"""
    M = Mods(env)
    g = env.bits('g', (2, 2 * N))
    p = env.phases('p', (2,))
    A = M.pa.Pauli(as_dtype(env, g[0], dtype), p[0])
    B = M.pa.Pauli(as_dtype(env, g[1], dtype), p[1])
    r = env.run(lambda: A @ B)
    env.goal('no_exception', b_not(r.raised))
    C = r.value
    if C is not None:
        ge, pe = ref.ref_mul(g[0], p[0], g[1], p[1])
        for i in range(2 * N):
            env.goal('string[%d]' % i, eq(C.g[i], ge[i]))
        env.goal('phase', eq(C.p, pe))
        env.goal('range', b_and(ref.binary(C.g), in_range([C.p], 0, 3)))
        env.goal('type', type(C) is M.pa.Pauli)
        env.goal('operands_unchanged', AND([arr_eq(A.g, g[0]), arr_eq(B.g, g[1]), eq(A.p, p[0]), eq(B.p, p[1])]))
    a = env.run(lambda: M.ut.acq(g[0], g[1]))
    env.goal('acq', b_and(b_not(a.raised), eq(a.value, ite(ref.ref_anti(g[0], g[1]), 1, 0))))
    ip = env.run(lambda: M.ut.ipow(g[0], g[1]))
    env.goal('ipow', b_and(b_not(ip.raised), eq(ip.value, ref.ref_ipow(g[0], g[1]))))
    # commutation consequence: AB = (-1)^acq BA through the real operator
    r2 = env.run(lambda: B @ A)
    if C is not None and r2.value is not None:
        D = r2.value
        env.goal('swap_string', arr_eq(C.g, D.g))
        env.goal('swap_phase', eq(C.p, (D.p + 2 * a.value) % 4))


def h_augmented(env, N, alias):
    """acc @= q: the accumulated product is right and no other operator changes -- neither another name for the initial
    operand, nor a phase-shifted partner (-a, 1j*a), nor the list row it was taken from"""
    M = Mods(env)
    g = env.bits('g', (2, 2 * N))
    p = env.phases('p', (2,))
    lst = M.pa.PauliList(g.copy(), p.copy())
    a = M.pa.Pauli(g[0].copy(), p[0]) if alias != 'row' else lst[0]
    b = M.pa.Pauli(g[1].copy(), p[1])
    if alias == 'same':
        acc, shift = a, 0
    elif alias == 'neg':
        acc, shift = -a, 2
    elif alias == 'times_i':
        acc, shift = 1j * a, 1
    else:
        acc, shift = a, 0

    def run():
        x = acc
        x @= b
        x @= a
        return x
    r = env.run(run)
    env.goal('no_exception', b_not(r.raised))
    if r.value is None:
        return
    g1, p1 = ref.ref_mul(g[0], (p[0] + shift) % 4, g[1], p[1])
    g2, p2 = ref.ref_mul(g1, p1, g[0], p[0])
    env.goal('accumulated_product', b_and(arr_eq(r.value.g, g2), eq(r.value.p, p2)))
    if alias != 'same':
        env.goal('initial_operand_unchanged', b_and(arr_eq(a.g, g[0]), eq(a.p, p[0])))
    env.goal('right_operand_unchanged', b_and(arr_eq(b.g, g[1]), eq(b.p, p[1])))
    env.goal('list_unchanged', b_and(arr_eq(lst.gs, g), arr_eq(lst.ps, p)))
    again = env.run(lambda: a @ b)
    if alias != 'same' and again.value is not None:
        ge, pe = ref.ref_mul(g[0], p[0], g[1], p[1])
        env.goal('plain_product_afterwards', b_and(arr_eq(again.value.g, ge), eq(again.value.p, pe)))


def h_assoc(env, N):
    M = Mods(env)
    g = env.bits('g', (3, 2 * N))
    p = env.phases('p', (3,))
    P = [M.pa.Pauli(g[k].copy(), p[k]) for k in range(3)]
    r = env.run(lambda: ((P[0] @ P[1]) @ P[2], P[0] @ (P[1] @ P[2])))
    env.goal('no_exception', b_not(r.raised))
    if r.value is not None:
        L, R = r.value
        env.goal('assoc_string', arr_eq(L.g, R.g))
        env.goal('assoc_phase', eq(L.p, R.p))


def h_square(env, N):
    M = Mods(env)
    g = env.bits('g', (2 * N,))
    p = env.phases('p', (1,))
    A = M.pa.Pauli(g.copy(), p[0])
    r = env.run(lambda: A @ A)
    env.goal('no_exception', b_not(r.raised))
    if r.value is not None:
        S2 = r.value
        env.goal('square_identity_string', arr_eq(S2.g, oarr([0] * (2 * N))))
        env.goal('square_pm_one', eq(S2.p % 2, 0))
        env.goal('square_sign', eq(S2.p, (2 * p[0]) % 4))


def h_chain(env, N, K):
    """explicit chain of K factors against the reference fold (phase bookkeeping never drifts)"""
    M = Mods(env)
    g = env.bits('g', (K, 2 * N))
    p = env.phases('p', (K,))

    def chain():
        acc = M.pa.Pauli(g[0].copy(), p[0])
        for k in range(1, K):
            acc = acc @ M.pa.Pauli(g[k].copy(), p[k])
        return acc
    r = env.run(chain)
    env.goal('no_exception', b_not(r.raised))
    if r.value is not None:
        ge, pe = g[0], p[0]
        for k in range(1, K):
            ge, pe = ref.ref_mul(ge, pe, g[k], p[k])
        env.goal('chain_string', arr_eq(r.value.g, ge))
        env.goal('chain_phase', eq(r.value.p, pe))


def h_acq_mat(env, N, L):
    M = Mods(env)
    gs = env.bits('gs', (L, 2 * N))
    snap = snapshot(gs)
    r = env.run(lambda: M.ut.acq_mat(gs))
    env.goal('no_exception', b_not(r.raised))
    if r.value is not None:
        for a in range(L):
            for b in range(L):
                env.goal('acq_mat[%d,%d]' % (a, b), eq(r.value[a, b], ite(ref.ref_anti(gs[a], gs[b]), 1, 0)))
        env.goal('argument_unchanged', unchanged(snap, gs))
    r0 = env.run(lambda: M.ut.ps0(gs))
    if r0.value is not None:
        for a in range(L):
            env.goal('ps0[%d]' % a, eq(r0.value[a], ref.ref_bare_phase(gs[a])))
    r1 = env.run(lambda: M.ut.p0(gs[0]))
    env.goal('p0', b_and(b_not(r1.raised), eq(r1.value, ref.ref_bare_phase(gs[0]))))


def h_batch_dot(env, N, L1, L2):
    """PauliPolynomial.__matmul__: all pairwise products, strings and phases (coefficients: C15)"""
    M = Mods(env)
    g1 = env.bits('g1', (L1, 2 * N))
    p1 = env.phases('p1', (L1,))
    g2 = env.bits('g2', (L2, 2 * N))
    p2 = env.phases('p2', (L2,))
    A = M.pa.PauliPolynomial(g1.copy(), p1.copy())
    B = M.pa.PauliPolynomial(g2.copy(), p2.copy())
    r = env.run(lambda: A @ B)
    env.goal('no_exception', b_not(r.raised))
    if r.value is not None:
        C = r.value
        env.goal('length', C.gs.shape == (L1 * L2, 2 * N))
        if C.gs.shape == (L1 * L2, 2 * N):
            for a in range(L1):
                for b in range(L2):
                    ge, pe = ref.ref_mul(g1[a], p1[a], g2[b], p2[b])
                    env.goal('term[%d,%d]_string' % (a, b), arr_eq(C.gs[a * L2 + b], ge))
                    env.goal('term[%d,%d]_phase' % (a, b), eq(C.ps[a * L2 + b], pe))
                    env.goal('term[%d,%d]_coef' % (a, b), eq(C.cs[a * L2 + b], 1))
        env.goal('operands_unchanged', AND([arr_eq(A.gs, g1), arr_eq(B.gs, g2), arr_eq(A.ps, p1), arr_eq(B.ps, p2)]))


def h_matmul_views(env, N):
    """operands that are rows of one list (views of the same array), and an operand multiplied with itself"""
    M = Mods(env)
    gs = env.bits('gs', (2, 2 * N))
    ps = env.phases('ps', (2,))
    lst = M.pa.PauliList(gs.copy(), ps.copy())
    r = env.run(lambda: (lst[0] @ lst[1], lst[1] @ lst[1], lst[-1] @ lst[0]))
    env.goal('no_exception', b_not(r.raised))
    if r.value is not None:
        for name, C, (a, b) in zip(('row0_row1', 'row1_squared', 'last_row0'), r.value, ((0, 1), (1, 1), (1, 0))):
            ge, pe = ref.ref_mul(gs[a], ps[a], gs[b], ps[b])
            env.goal(name, b_and(arr_eq(C.g, ge), eq(C.p, pe)))
    env.goal('list_unchanged', b_and(arr_eq(lst.gs, gs), arr_eq(lst.ps, ps)))
    poly = M.pa.PauliPolynomial(gs.copy(), ps.copy())
    r2 = env.run(lambda: poly @ poly)
    env.goal('polynomial_squared_no_exception', b_not(r2.raised))
    if r2.value is not None:
        # compared as an operator (coefficient of every Pauli string), whatever the term layout of the result
        from .c15 import coefvec, product_terms, vec_of, vec_eq
        terms = [(gs[k], ps[k], (1, 0)) for k in range(2)]
        vec_eq(env, 'polynomial_squared', vec_of(r2.value, N, M), coefvec(N, product_terms(terms, terms)))


def h_product_after_update(env, N, how, first):
    """histories: a Pauli is used once in a mixed product (which casts it to a monomial / polynomial), then updated in place
    (rotated, transformed, or its fields assigned), then multiplied again: the second product must use the operator the
    object denotes now, not a form remembered from the first use"""
    from .c15 import coefvec, product_terms, vec_of, vec_eq
    M = Mods(env)
    g = env.bits('g', (2 * N,))
    p = env.phases('p', (1,))[0]
    h = env.bits('h', (2 * N,))
    q = env.phases('q', (1,))[0]
    P = M.pa.Pauli(g.copy(), p)
    Q = M.pa.PauliMonomial(h.copy(), q)
    one = M.pa.pauli_identity(N)
    r0 = env.run({'as_polynomial': lambda: P.as_polynomial(), 'as_monomial': lambda: P.as_monomial(), 'matmul_monomial': lambda: P @ Q,
                  'add': lambda: P + one, 'none': lambda: None}[first])
    env.goal('first_use_no_exception', b_not(r0.raised))
    if how == 'rotate':
        gg = env.bits('gg', (2 * N,))
        pg = 2 * env.signs('pg', (1,))[0]
        r1 = env.run(lambda: P.rotate_by(M.pa.Pauli(gg.copy(), pg)))
        g2, p2 = ref.ref_rotate(gg, pg, g, p)
    elif how == 'transform':
        zz = env.const([0, 1] * N)
        r1 = env.run(lambda: P.transform_by(M.st.clifford_rotation_map(M.pa.Pauli(zz.copy(), 0))))     # conjugation by exp(i pi/4 Z..Z)
        g2, p2 = ref.ref_rotate(zz, 0, g, p)
    else:
        g2 = env.bits('g2', (2 * N,))
        p2 = env.phases('p2', (1,))[0]

        def assign():
            P.g = g2.copy()
            P.p = p2
        r1 = env.run(assign)
    env.goal('update_no_exception', b_not(r1.raised))
    env.goal('updated_fields', b_and(arr_eq(P.g, g2), eq(P.p, p2)))
    now = [(g2, p2, (1, 0))]
    other = [(h, q, (1, 0))]
    for name, f, want in (('pauli_times_monomial', lambda: P @ Q, product_terms(now, other)), ('monomial_times_pauli', lambda: Q @ P, product_terms(other, now)),
                          ('as_polynomial', lambda: P.as_polynomial(), now), ('as_monomial', lambda: P.as_monomial(), now),
                          ('pauli_plus_identity', lambda: P + one, now + [([0] * (2 * N), 0, (1, 0))])):
        r = env.run(f)
        env.goal(name + '_no_exception', b_not(r.raised))
        if r.value is not None:
            vec_eq(env, name, vec_of(r.value, N, M), coefvec(N, want))
    rp = env.run(lambda: P @ M.pa.Pauli(h.copy(), q))
    if rp.value is not None:
        ge, pe = ref.ref_mul(g2, p2, h, q)
        env.goal('pauli_times_pauli', b_and(arr_eq(rp.value.g, ge), eq(rp.value.p, pe)))


def jobs(tier):
    J = []
    nmax = 3 if tier == 'quick' else 5
    for N in range(1, nmax + 1):
        J.append(dict(harness=('c01', 'h_matmul'), params=dict(N=N)))
        if N <= 2:
            J.append(dict(harness=('c01', 'h_matmul'), params=dict(N=N, dtype='uint8')))
        if N <= 3:
            J.append(dict(harness=('c01', 'h_assoc'), params=dict(N=N)))
        elif N == 4:
            J.append(dict(harness=('c01', 'h_assoc'), params=dict(N=N), timeout_s=600, wall_s=1300, claimed=False, label='stretch:h_assoc{"N": 4}'))
        J.append(dict(harness=('c01', 'h_square'), params=dict(N=N)))
    for N in range(1, (3 if tier == 'quick' else 4) + 1):
        for L in range(1, (2 if tier == 'quick' else 3) + 1):
            J.append(dict(harness=('c01', 'h_acq_mat'), params=dict(N=N, L=L)))
    for N in range(1, (2 if tier == 'quick' else 3) + 1):
        for L1 in (1, 2):
            for L2 in (1, 2):
                J.append(dict(harness=('c01', 'h_batch_dot'), params=dict(N=N, L1=L1, L2=L2)))
    for N in (1, 2):
        for alias in ('same', 'neg', 'times_i', 'row', 'fresh'):
            J.append(dict(harness=('c01', 'h_augmented'), params=dict(N=N, alias=alias)))
    for N in (1, 2, 3):
        J.append(dict(harness=('c01', 'h_matmul_views'), params=dict(N=N)))
    for N in (1, 2) if tier == 'quick' else (1, 2, 3):
        for how in ('rotate', 'transform', 'assign'):
            for first in ('as_polynomial', 'matmul_monomial', 'add', 'as_monomial', 'none'):
                if tier == 'quick' and N == 2 and first in ('as_monomial', 'none'):
                    continue
                J.append(dict(harness=('c01', 'h_product_after_update'), params=dict(N=N, how=how, first=first), timeout_s=300, cost=10))
    for N in range(1, (2 if tier == 'quick' else 4) + 1):
        J.append(dict(harness=('c01', 'h_chain'), params=dict(N=N, K=4)))
    return J
