"""C14  Mid-circuit measurement and post-selection follow the quantum trajectory."""
import itertools
import numpy as np
from .common import *
from .tableau import sym_state, mk_state, inv_goals
from .circuits import make_gates

CLASS_LAYER = ['MeasureLayer.__init__/obs_gs_ps/forward/backward', 'Circuit.take/measure/forward/backward/compile',
               'StabilizerState.postselect/measure', 'CliffordLayer.take', 'pauli']
TV_KERNELS = ['stabilizer_measure', 'stabilizer_postselection', 'clifford_rotate']
BOUNDS = {'quick': 'arbitrary Inv state N<=2 (N=3 for measurement layers on <=2 qubits in any order), every rank for forward; measurement layers on every ordered qubit tuple; programs of <=2 symbolic generator gates and <=2 measurement layers; post-selection of a symbolic signed Pauli on an arbitrary pure Inv state N<=2, both requested outcomes; backward with recorded and with every supplied record',
          'thorough': 'post-selection N=3 (64-way split on the Pauli string); programs with 3 operations'}
OUTSIDE = 'post-selection on mixed states (the library raises ValueError, checked as such); N beyond the bound; RNG fairness'
ASSUMPTIONS = ['pre-state satisfies Inv; post-selected operator Hermitian', 'state.measure is the reference for a measurement layer (its own correctness is C06), coins of the two runs identified draw by draw']
STUBS = ['numpy.random.randint -> fresh solver variable per call']


def pre(tier):
    return dict(oracle_checked=ref.self_check(2))


def zlist(M, env, N, qubits):
    g = np.zeros((len(qubits), 2 * N), dtype=int)
    for i, q in enumerate(qubits):
        g[i, 2 * q + 1] = 1
    return M.pa.PauliList(env.const(g), env.const(np.zeros(len(qubits), dtype=int)))


def h_measure_layer(env, N, r, qubits):
    """Circuit(N).measure(*qubits).forward(state) == state.measure(Z list) with the same coins: record, log2prob, rows, signs, rank"""
    M = Mods(env)
    gs, ps = sym_state(env, N)
    A = mk_state(M, env, gs, ps, r)
    B = mk_state(M, env, gs, ps, r)
    circ = M.ci.Circuit(N)
    env.reseed()
    ra = env.run(lambda: circ.measure(*qubits).forward(A))
    env.reseed()
    rb = env.run(lambda: B.measure(zlist(M, env, N, qubits)))
    env.assume(env.identify_streams(), 'both runs draw the same coins')
    env.goal('no_exception', b_not(b_or(ra.raised, rb.raised)))
    if ra.value is None or rb.value is None:
        return
    out, lp = rb.value
    env.goal('returns_state', ra.value is A)
    env.goal('rows', arr_eq(A.gs, B.gs))
    env.goal('signs', arr_eq(A.ps, B.ps))
    env.goal('rank', eq(A.r, B.r))
    rec = circ.measure_result
    env.goal('record_length', len(rec) == len(qubits))
    if len(rec) == len(qubits):
        for k in range(len(qubits)):
            env.goal('record[%d]' % k, eq(rec[k], 1 - 2 * out[k]))
    env.goal('log2prob', eq(circ.log2prob, lp))
    env.goal('unitary_flag', circ.unitary is False)


h_measure_layer.uses_rng = True


def _ops(env, M, N, prog):
    """real operations for a program of ['gen', qubits] / ['M', qubits]"""
    gates, tables, _ = make_gates(env, M, N, [op for op in prog if op[0] != 'M'])
    it = iter(gates)
    return [('M', op[1]) if op[0] == 'M' else ('G', next(it)) for op in prog]


def h_trajectory_forward(env, N, r, prog, compiled=False, touch=()):
    """Circuit.forward on a program interleaving gates and measurement layers == the operations applied one by one
    (gate.forward / state.measure), records concatenated in order, log-probabilities summed"""
    M = Mods(env)
    gs, ps = sym_state(env, N)
    A = mk_state(M, env, gs, ps, r)
    B = mk_state(M, env, gs, ps, r)
    opsA = _ops(env, M, N, prog)
    circ = M.ci.Circuit(N)

    # compiled: False | True (once, at the end) | list of positions k: compile() right after the k-th operation was added
    # (a circuit compiled while it was still measurement-free, then extended, compiled again or not)
    points = [] if compiled is False else ([len(opsA) - 1] if compiled is True else list(compiled))

    # touch: positions k after which the half-built circuit is looked at (repr) and run once on a scratch state, as in an
    # interactive session, before more operations are added
    def build():
        for k, (kind, x) in enumerate(opsA):
            if kind == 'M':
                circ.measure(*x)
            else:
                circ.take(x)
            if k in points:
                circ.compile()          # with measurement layers only the unitary layers are compiled
            if k in touch:
                repr(circ)
                circ.forward(M.st.zero_state(N))
        return circ
    built = env.run(build)          # coins of the scratch runs are drawn before the compared streams start
    env.goal('built_no_exception', b_not(built.raised))
    n0, lp0 = len(circ.measure_result), circ.log2prob       # the record accumulates over runs (scratch runs come first)
    env.reseed()
    ra = env.run(lambda: circ.forward(A))
    env.reseed()

    def manual():
        rec, lp = [], 0
        for kind, x in opsA:
            if kind == 'M':
                o, l = B.measure(zlist(M, env, N, x))
                rec += [1 - 2 * v for v in o]
                lp = lp + l
            else:
                x.forward(B)
        return rec, lp
    rb = env.run(manual)
    env.assume(env.identify_streams(), 'both runs draw the same coins')
    env.goal('no_exception', b_not(b_or(ra.raised, rb.raised)))
    if ra.value is None or rb.value is None:
        return
    rec, lp = rb.value
    env.goal('rows', arr_eq(A.gs, B.gs))
    env.goal('signs', arr_eq(A.ps, B.ps))
    env.goal('rank', eq(A.r, B.r))
    env.goal('record_length', len(circ.measure_result) == n0 + len(rec))
    if len(circ.measure_result) == n0 + len(rec):
        for k in range(len(rec)):
            env.goal('record[%d]' % k, eq(circ.measure_result[n0 + k], rec[k]))
    env.goal('log2prob', eq(circ.log2prob - lp0, lp))
    env.goal('num_of_measures', circ.num_of_measures == sum(len(op[1]) for op in prog if op[0] == 'M'))


h_trajectory_forward.uses_rng = True


def h_postselect(env, N, outcome, fix=None):
    """postselect(P, s) on an arbitrary pure Inv state: Born probability of the requested outcome and the projected state"""
    M = Mods(env)
    gs, ps = sym_state(env, N)
    g = env.bits('obs', (2 * N,)) if fix is None else env.const(fix)
    p = env.signs('obs_sign', (1,))[0]
    state = mk_state(M, env, gs, ps, 0)
    obs = M.pa.Pauli(g.copy(), p)
    res = env.run(lambda: state.postselect(obs, outcome))
    env.goal('no_exception', b_not(res.raised))
    env.goal('observable_object_unchanged', b_and(arr_eq(obs.g, g), eq(obs.p, p)))
    if res.value is None:
        return
    # the same observable object used again on a second copy of the state: the same probability
    second = mk_state(M, env, gs, ps, 0)
    again = env.run(lambda: second.postselect(obs, outcome))
    env.goal('same_observable_object_second_use', b_and(b_not(again.raised), eq(again.value, res.value) if again.value is not None else False))
    prob = res.value
    want_p = (p + 2 * outcome) % 4                      # the operator whose +1 eigenspace is requested
    e = ref.ref_expect(gs, ps, 0, N, g, want_p)         # Tr(rho * (-1)^s P)
    env.goal('probability', AND([b_implies(eq(e, 1), eq(prob, 1)), b_implies(eq(e, -1), eq(prob, 0)),
                                 b_implies(eq(e, 0), eq(prob * 2, 1))]))
    env.goal('impossible_outcome_leaves_state_unchanged', b_implies(eq(e, -1), AND([arr_eq(state.gs, gs), arr_eq(state.ps, ps), eq(state.r, 0)])))
    post = ref.ref_expect(state.gs, state.ps, 0, N, g, want_p)
    env.goal('projected_state_stabilized', b_implies(compare('!=', e, -1), eq(post, 1)))
    keep = []
    for (gg, pp) in ref.group(gs[0:N], ps[0:N]):
        keep.append(b_implies(b_and(compare('!=', e, -1), b_not(ref.ref_anti(gg, g))), eq(ref.ref_expect(state.gs, state.ps, 0, N, gg, pp), 1)))
    env.goal('commuting_elements_keep_sign', AND(keep))
    env.goal('rank_stays_pure', eq(state.r, 0))
    for name, c in ref.inv_conjuncts(state.gs, state.ps, N, 'post_'):
        env.goal(name, c)


def h_postselect_mixed(env, N, r):
    M = Mods(env)
    gs, ps = sym_state(env, N)
    g = env.bits('obs', (2 * N,))
    state = mk_state(M, env, gs, ps, r)
    res = env.run(lambda: state.postselect(M.pa.Pauli(g.copy(), 0), 0))
    env.goal('mixed_state_rejected', res.raised_kind('ValueError'))
    env.goal('state_untouched', AND([arr_eq(state.gs, gs), arr_eq(state.ps, ps), eq(state.r, r)]))


def h_backward(env, N, prog, record):
    """Circuit.backward(state, record) == the reverse sequence of post-selections (last measured qubit first) and gate
    backwards, and raises ValueError exactly when some post-selection has probability 0.
    record=None: run forward first and use the recorded trajectory (which is never impossible)."""
    M = Mods(env)
    gs, ps = sym_state(env, N)
    A = mk_state(M, env, gs, ps, 0)
    B = mk_state(M, env, gs, ps, 0)
    ops = _ops(env, M, N, prog)
    circ = M.ci.Circuit(N)
    for kind, x in ops:
        if kind == 'M':
            circ.measure(*x)
        else:
            circ.take(x)
    if record is None:
        warm = mk_state(M, env, gs, ps, 0)
        f = env.run(lambda: circ.forward(warm))
        env.goal('forward_no_exception', b_not(f.raised))
        if f.value is None:
            return
        A = warm
        B = mk_state(M, env, warm.gs, warm.ps, 0)
        rec = list(circ.measure_result)
        ra = env.run(lambda: circ.backward(A))
    else:
        rec = list(record)
        ra = env.run(lambda: circ.backward(A, measure_result=list(record)))

    def manual():
        k = len(rec)
        impossible = False
        for kind, x in reversed(ops):
            if kind == 'M':
                for q in reversed(x):
                    k -= 1
                    tmp = [0] * N
                    tmp[q] = 3
                    m = rec[k]
                    s = (1 - m) // 2 if not hasattr(m, 'e') else ite(eq(m, 1), 0, 1)
                    if hasattr(s, 'e'):
                        s = int(s)
                    pr = B.postselect(M.pa.pauli(tmp), s)
                    if bool(eq(pr, 0)):
                        return True
            else:
                x.backward(B)
        return impossible
    rb = env.run(manual)
    env.goal('manual_no_exception', b_not(rb.raised))
    if rb.value is None:
        return
    if rb.value is True:
        env.goal('impossible_record_raises_ValueError', ra.raised_kind('ValueError'))
    else:
        env.goal('possible_record_no_exception', b_not(ra.raised))
        if ra.value is not None:
            env.goal('rows', arr_eq(A.gs, B.gs))
            env.goal('signs', arr_eq(A.ps, B.ps))
            env.goal('rank', eq(A.r, B.r))
    if record is not None and len(record) > 0:
        bad = env.run(lambda: circ.backward(mk_state(M, env, gs, ps, 0), measure_result=list(record) + [1]))
        env.goal('wrong_record_length_rejected', bad.raised_kind('ValueError'))


h_backward.uses_rng = True


def h_reuse_after_backward(env, N, r, qubits, record):
    """history on ONE circuit object: backward with a supplied record, then forward on a fresh state -- the second
    forward must still be the direct measurement (record, log2prob, state)"""
    M = Mods(env)
    gs, ps = sym_state(env, N)
    g0, p0 = sym_state(env, N, 'b')
    circ = M.ci.Circuit(N)
    circ.measure(*qubits)
    warm = mk_state(M, env, g0, p0, 0)
    env.run(lambda: circ.backward(warm, measure_result=list(record)))      # may legitimately raise for an impossible record
    A = mk_state(M, env, gs, ps, r)
    B = mk_state(M, env, gs, ps, r)
    env.reseed()
    ra = env.run(lambda: circ.forward(A))
    env.reseed()
    rb = env.run(lambda: B.measure(zlist(M, env, N, qubits)))
    env.assume(env.identify_streams(), 'both runs draw the same coins')
    env.goal('no_exception', b_not(b_or(ra.raised, rb.raised)))
    if ra.value is None or rb.value is None:
        return
    out, lp = rb.value
    env.goal('rows', arr_eq(A.gs, B.gs))
    env.goal('signs', arr_eq(A.ps, B.ps))
    env.goal('rank', eq(A.r, B.r))
    rec = circ.measure_result
    env.goal('record_length', len(rec) == len(qubits))
    if len(rec) == len(qubits):
        for k in range(len(qubits)):
            env.goal('record[%d]' % k, eq(rec[k], 1 - 2 * out[k]))
    # and a second forward appends to the record in order (documented accumulation)
    C2 = mk_state(M, env, gs, ps, r)
    env.reseed()
    rc = env.run(lambda: circ.forward(C2))
    if rc.value is not None:
        env.goal('second_forward_appends', len(circ.measure_result) == 2 * len(qubits))


h_reuse_after_backward.uses_rng = True


def h_backward_after_two_forwards(env, N, prog):
    """history: the same circuit is run forward twice (on two different states); backward() without a record must
    apply the adjoint of the LATEST recorded trajectory (never an impossible one for the state just produced)"""
    M = Mods(env)
    g1, p1 = sym_state(env, N, 'a')
    g2, p2 = sym_state(env, N, 'b')
    ops = _ops(env, M, N, prog)
    circ = M.ci.Circuit(N)
    for kind, x in ops:
        if kind == 'M':
            circ.measure(*x)
        else:
            circ.take(x)
    k = sum(len(op[1]) for op in prog if op[0] == 'M')
    A = mk_state(M, env, g1, p1, 0)
    B = mk_state(M, env, g2, p2, 0)
    f = env.run(lambda: (circ.forward(A), circ.forward(B)))
    env.goal('forward_no_exception', b_not(f.raised))
    if f.value is None:
        return
    env.goal('record_accumulates', len(circ.measure_result) == 2 * k)
    if len(circ.measure_result) != 2 * k:
        return
    rec = list(circ.measure_result)[k:]                 # the second run's outcomes
    C = mk_state(M, env, B.gs, B.ps, 0)
    ra = env.run(lambda: circ.backward(B))

    def manual():
        kk = len(rec)
        for kind, x in reversed(ops):
            if kind == 'M':
                for q in reversed(x):
                    kk -= 1
                    tmp = [0] * N
                    tmp[q] = 3
                    m = rec[kk]
                    s_ = int(ite(eq(m, 1), 0, 1)) if hasattr(m, 'e') else (1 - int(m)) // 2
                    C.postselect(M.pa.pauli(tmp), s_)
            else:
                x.backward(C)
    rb = env.run(manual)
    env.goal('backward_of_own_latest_trajectory_is_possible', b_not(ra.raised))
    env.goal('manual_no_exception', b_not(rb.raised))
    if ra.value is not None and rb.value is None and not rb.raised is True:
        env.goal('rows', arr_eq(B.gs, C.gs))
        env.goal('signs', arr_eq(B.ps, C.ps))


h_backward_after_two_forwards.uses_rng = True


def jobs(tier):
    J = []
    thorough = tier == 'thorough'
    for N in (1, 2, 3):
        tups = [list(t) for k in (1, 2) for t in itertools.permutations(range(N), k)]
        for r in range(N + 1):
            for q in tups:
                if N == 3 and not thorough and (r not in (0, 2) or len(q) == 1):
                    continue
                J.append(dict(harness=('c14', 'h_measure_layer'), params=dict(N=N, r=r, qubits=q), timeout_s=600, cost=10 * N * len(q)))
    progs2 = [[['gen', [0, 1]], ['M', [0]]], [['M', [1]], ['gen', [0, 1]]], [['M', [1, 0]], ['gen', [1]], ['M', [0]]], [['gen', [0]], ['M', [0, 1]], ['gen', [0, 1]]],
              [['M', [0]], ['M', [0]]], [['M', [0]], ['gen', [1]], ['gen', [0]], ['M', [1, 0]]]]
    for prog in progs2:
        for r in (0, 1, 2):
            J.append(dict(harness=('c14', 'h_trajectory_forward'), params=dict(N=2, r=r, prog=prog), timeout_s=600, cost=40))
            if r == 1:
                J.append(dict(harness=('c14', 'h_trajectory_forward'), params=dict(N=2, r=r, prog=prog, compiled=True), timeout_s=600, cost=40))
    for prog, pts in (([['gen', [0, 1]], ['M', [0]]], [0]), ([['gen', [0, 1]], ['M', [0]]], [0, 1]), ([['gen', [0]], ['M', [0, 1]], ['gen', [0, 1]]], [0]),
                      ([['gen', [0]], ['gen', [0, 1]], ['M', [1]], ['gen', [1]]], [1, 3]), ([['M', [1]], ['gen', [0, 1]]], [0])):
        for r in (0, 1):
            J.append(dict(harness=('c14', 'h_trajectory_forward'), params=dict(N=2, r=r, prog=prog, compiled=pts), timeout_s=600, cost=40))
    for prog, touch in (([['gen', [0, 1]], ['M', [0]], ['gen', [1]]], [1]), ([['gen', [0]], ['M', [0, 1]], ['gen', [0]], ['gen', [1]]], [1]),
                        ([['M', [1]], ['gen', [0]]], [0]), ([['gen', [0, 1]], ['M', [0]], ['gen', [1]], ['M', [1]]], [1, 2])):
        for r in (0, 1):
            J.append(dict(harness=('c14', 'h_trajectory_forward'), params=dict(N=2, r=r, prog=prog, touch=touch), timeout_s=600, cost=40))
    for N in (1, 2):
        for outcome in (0, 1):
            J.append(dict(harness=('c14', 'h_postselect'), params=dict(N=N, outcome=outcome), timeout_s=600, cost=20))
        for r in range(1, N + 1):
            J.append(dict(harness=('c14', 'h_postselect_mixed'), params=dict(N=N, r=r)))
    bprogs = [[['M', [0]]], [['M', [1, 0]]], [['gen', [0, 1]], ['M', [1]]], [['M', [0]], ['gen', [0, 1]], ['M', [1, 0]]], [['gen', [1]], ['M', [0, 1]], ['gen', [0, 1]]]]
    for prog in bprogs:
        k = sum(len(op[1]) for op in prog if op[0] == 'M')
        J.append(dict(harness=('c14', 'h_backward'), params=dict(N=2, prog=prog, record=None), timeout_s=600, cost=40, max_paths=3000))
        for record in itertools.product((1, -1), repeat=k):
            if k <= 2 or thorough or record[0] == record[-1]:
                J.append(dict(harness=('c14', 'h_backward'), params=dict(N=2, prog=prog, record=list(record)), timeout_s=600, cost=30, max_paths=3000))
    for N in (1, 2):
        for q in ([0],) if N == 1 else ([0], [1, 0], [0, 1]):
            for record in itertools.product((1, -1), repeat=len(q)):
                for r in (0, N):
                    J.append(dict(harness=('c14', 'h_reuse_after_backward'), params=dict(N=N, r=r, qubits=list(q), record=list(record)), timeout_s=600, cost=30, max_paths=3000))
    for prog in ([['M', [0]]], [['gen', [0, 1]], ['M', [1]]], [['M', [1]], ['gen', [0, 1]], ['M', [0, 1]]]):
        J.append(dict(harness=('c14', 'h_backward_after_two_forwards'), params=dict(N=2, prog=prog), timeout_s=600, cost=40, max_paths=3000))
    # nothing added after a measurement moves in front of it: packing lemma with one measurement at every position
    for N in (2, 3):
        for n_ops in (2, 3):
            J.append(dict(harness=('circuits', 'h_packing_all'), params=dict(N=N, n_ops=n_ops, cls='Circuit', with_measure=True), cost=5))
    if thorough:
        for fix in itertools.product((0, 1), repeat=6):
            for outcome in (0, 1):
                J.append(dict(harness=('c14', 'h_postselect'), params=dict(N=3, outcome=outcome, fix=list(fix)), timeout_s=600,
                              label='split64:h_postselect[N=3,out=%d,obs=%s]' % (outcome, ''.join(map(str, fix)))))
    return J
