"""C20  Operator descriptions, printing, tokens and indexing round-trip."""
import itertools
import numpy as np
from .common import *

CLASS_LAYER = ['pauli', 'paulis', 'Pauli.__repr__/__neg__/__rmul__/__truediv__/weight/N/tokenize', 'PauliList.__repr__/__getitem__/__neg__/__rmul__/weight/N/L/__len__/tokenize',
               'PauliPolynomial.__getitem__', 'pauli_identity', 'pauli_zero']
TV_KERNELS = ['pauli_tokenize']
BOUNDS = {'quick': 'N<=3 for tokenize/parse and print/parse round trips with all four phases (string bits and phase symbolic; the parser forks per symbol); every documented prefix x symbolic letter codes N<=2; every string description N<=2; selection by every int, slice, boolean mask and index array on lists L<=3; phase arithmetic of negation and unit multiples with all phases',
          'thorough': 'N<=4 for the round trips'}
OUTSIDE = 'undocumented prefix orders (e.g. "i-"); number formatting of monomial coefficients; N beyond the bound. String formatting makes every path concrete: this is the weakest use of the solver in the set.'
ASSUMPTIONS = ['operands well formed']
LETTER = 'IXYZ'


def pre(tier):
    return dict(oracle_checked=ref.self_check(2))


def h_tokenize_roundtrip(env, N):
    M = Mods(env)
    g = env.bits('g', (2 * N,))
    p = env.phases('p', (1,))[0]
    P = M.pa.Pauli(g.copy(), p)
    res = env.run(lambda: P.tokenize())
    env.goal('tokenize_no_exception', b_not(res.raised))
    if res.value is None:
        return
    ts = res.value
    env.goal('token_shape', tuple(np.shape(ts)) == (1, N + 1))
    if tuple(np.shape(ts)) != (1, N + 1):
        return
    for i in range(N):
        x, z = g[2 * i], g[2 * i + 1]
        want = ite(b_and(eq(x, 0), eq(z, 0)), 0, ite(b_and(eq(x, 1), eq(z, 0)), 1, ite(b_and(eq(x, 1), eq(z, 1)), 2, 3)))
        env.goal('token[%d]' % i, eq(ts[0][i], want))
    env.goal('phase_token', eq(ts[0][N], 4 + ite(eq(p, 0), 0, ite(eq(p, 2), 1, ite(eq(p, 1), 2, 3)))))
    back = env.run(lambda: M.pa.pauli(ts[0]))
    env.goal('parse_no_exception', b_not(back.raised))
    if back.value is not None:
        Q = back.value
        env.goal('round_trip_string', arr_eq(Q.g, g))
        env.goal('round_trip_phase', eq(Q.p, p))
    env.goal('operand_unchanged', b_and(arr_eq(P.g, g), eq(P.p, p)))
    # list version
    lst = env.run(lambda: M.pa.paulis(M.pa.PauliList(np.stack([g, g]) if not env.symbolic else env.np.stack([g, g]), env.np.stack([p, p]) if env.symbolic else np.array([p, p])).tokenize()))
    env.goal('list_round_trip', b_and(b_not(lst.raised), lst.value is not None and b_and(arr_eq(lst.value.gs[1], g), eq(lst.value.ps[1], p))))


def h_describe_after_update(env, N, how):
    """tokens / printed text / weight of one list object are asked for, the list is changed in place (rotated, masked
    rotation, fields edited), and they are asked for again: the second answers describe the operators as they are now"""
    M = Mods(env)
    gs = env.bits('gs', (2, 2 * N))
    ps = env.phases('ps', (2,))
    lst = M.pa.PauliList(gs.copy(), ps.copy())
    first = env.run(lambda: (lst.tokenize(), repr(lst) if N == 1 else None, lst.weight()))
    env.goal('first_no_exception', b_not(first.raised))
    gg = env.bits('gen', (2 * N,))
    if how == 'rotate':
        up = env.run(lambda: lst.rotate_by(M.pa.Pauli(gg.copy(), 0)))
        now = [ref.ref_rotate(gg, 0, gs[k], ps[k]) for k in range(2)]
    elif how == 'masked_rotate':
        up = env.run(lambda: lst.rotate_by(M.pa.Pauli(gg[:2].copy(), 0), np.array([True] + [False] * (N - 1))))
        full = oarr(list(gg[:2]) + [0] * (2 * N - 2))
        now = [ref.ref_rotate(full, 0, gs[k], ps[k]) for k in range(2)]
    else:
        def edit():
            lst.ps[0] = (lst.ps[0] + 1) % 4
            lst.gs[1, 0] = 1 - lst.gs[1, 0]
        up = env.run(edit)
        g1 = oarr(list(gs[1]))
        g1[0] = 1 - gs[1][0]
        now = [(gs[0], (ps[0] + 1) % 4), (g1, ps[1])]
    env.goal('update_no_exception', b_not(up.raised))
    second = env.run(lambda: lst.tokenize())
    env.goal('second_tokenize_no_exception', b_not(second.raised))
    if second.value is not None and tuple(np.shape(second.value)) == (2, N + 1):
        ts = second.value
        for k in range(2):
            g, p = now[k]
            for i in range(N):
                x, z = g[2 * i], g[2 * i + 1]
                want = ite(b_and(eq(x, 0), eq(z, 0)), 0, ite(b_and(eq(x, 1), eq(z, 0)), 1, ite(b_and(eq(x, 1), eq(z, 1)), 2, 3)))
                env.goal('row%d_token[%d]_after_update' % (k, i), eq(ts[k][i], want))
            env.goal('row%d_phase_token_after_update' % k, eq(ts[k][N], 4 + ite(eq(p, 0), 0, ite(eq(p, 2), 1, ite(eq(p, 1), 2, 3)))))
    else:
        env.goal('second_token_shape', False)
    w = env.run(lambda: lst.weight())
    if w.value is not None and np.shape(w.value) == (2,):
        for k in range(2):
            g, p = now[k]
            cnt = sum((ite(b_or(eq(g[2 * i], 1), eq(g[2 * i + 1], 1)), 1, 0) for i in range(N)), 0)
            env.goal('row%d_weight_after_update' % k, eq(w.value[k], cnt))


def h_repr_roundtrip(env, N):
    M = Mods(env)
    g = env.bits('g', (2 * N,))
    p = env.phases('p', (1,))[0]
    P = M.pa.Pauli(g.copy(), p)
    res = env.run(lambda: repr(P))
    env.goal('repr_no_exception', b_not(res.raised))
    if res.value is None:
        return
    txt = res.value
    env.goal('text_length', isinstance(txt, str) and len(txt) == N + 2)
    if not (isinstance(txt, str) and len(txt) == N + 2):
        return
    # the printed letters and prefix denote the operator
    for i in range(N):
        x, z = LETTER.index(txt[2 + i]) in (1, 2), LETTER.index(txt[2 + i]) in (2, 3)
        env.goal('letter[%d]' % i, b_and(eq(g[2 * i], int(x)), eq(g[2 * i + 1], int(z))))
    env.goal('prefix', eq(p, {' +': 0, '+i': 1, ' -': 2, '-i': 3}.get(txt[:2], 9)))
    back = env.run(lambda: M.pa.pauli(txt.strip()))
    env.goal('parse_no_exception', b_not(back.raised))
    if back.value is not None:
        env.goal('round_trip', b_and(arr_eq(back.value.g, g), eq(back.value.p, p)))
    lst = env.run(lambda: repr(M.pa.PauliList(env.np.stack([g, g]), env.np.stack([p, p]) if env.symbolic else np.array([p, p]))))
    env.goal('list_repr', b_and(b_not(lst.raised), lst.value == txt + '\n' + txt))


def h_descriptions(env, N, prefix):
    """list (prefix symbols + symbolic letter codes), dict and string descriptions of the same operator agree"""
    M = Mods(env)
    codes = env.ints('codes', (N,), 0, 3)
    pre_syms = {'': [], '+': ['+'], '-': ['-'], 'i': ['i'], '-i': ['-', 'i'], '+i': ['+', 'i']}[prefix]
    p_want = {'': 0, '+': 0, '-': 2, 'i': 1, '-i': 3, '+i': 1}[prefix]
    g_want = oarr([v for k in range(N) for v in (ite(b_or(eq(codes[k], 1), eq(codes[k], 2)), 1, 0), ite(b_or(eq(codes[k], 2), eq(codes[k], 3)), 1, 0))])
    res = env.run(lambda: M.pa.pauli(pre_syms + [codes[k] for k in range(N)]))
    env.goal('list_no_exception', b_not(res.raised))
    if res.value is not None:
        P = res.value
        env.goal('list_length', P.g.shape == (2 * N,))
        if P.g.shape == (2 * N,):
            env.goal('list_string', arr_eq(P.g, g_want))
            env.goal('list_phase', eq(P.p, p_want))
    tok = {'': None, '+': 4, '-': 5, 'i': 6, '+i': 6, '-i': 7}[prefix]
    if tok is not None:
        r2 = env.run(lambda: M.pa.pauli(env.np.array([codes[k] for k in range(N)] + [tok]) if env.symbolic else np.array([int(codes[k]) for k in range(N)] + [tok])))
        env.goal('token_array', b_and(b_not(r2.raised), r2.value is not None and r2.value.g.shape == (2 * N,) and b_and(arr_eq(r2.value.g, g_want), eq(r2.value.p, p_want))))
    if tok is not None:
        # integer arrays with the phase token leading (as a string prefix would be) or in the middle; lists and tuples of the same codes
        for pos_name, pos in (('leading', 0), ('middle', N // 2)) if N > 1 else (('leading', 0),):
            seq = [codes[k] for k in range(N)]
            seq.insert(pos, tok)
            for cname, conv in (('array', lambda x: env.np.array(x) if env.symbolic else np.array([int(v) for v in x])), ('tuple', tuple), ('list', list)):
                rr = env.run(lambda: M.pa.pauli(conv(list(seq))))
                env.goal('token_%s_%s' % (cname, pos_name), b_and(b_not(rr.raised), rr.value is not None and rr.value.g.shape == (2 * N,) and b_and(arr_eq(rr.value.g, g_want), eq(rr.value.p, p_want))))
    if prefix == '':
        r3 = env.run(lambda: M.pa.pauli({k: codes[k] for k in range(N)}, N))
        env.goal('dict', b_and(b_not(r3.raised), r3.value is not None and b_and(arr_eq(r3.value.g, g_want), eq(r3.value.p, 0))))
        r4 = env.run(lambda: M.pa.pauli({k: codes[k] for k in range(N)}))
        env.goal('dict_without_N_rejected', r4.raised_kind('ValueError'))
    # string form: letters concretised by the path explorer (one path per letter pattern)
    r5 = env.run(lambda: M.pa.pauli(prefix + ''.join(LETTER[int(codes[k])] for k in range(N))))
    env.goal('string', b_and(b_not(r5.raised), r5.value is not None and r5.value.g.shape == (2 * N,) and b_and(arr_eq(r5.value.g, g_want), eq(r5.value.p, p_want))))
    r6 = env.run(lambda: M.pa.paulis(prefix + ''.join(LETTER[int(codes[k])] for k in range(N)), [codes[k] for k in range(N)]))
    env.goal('paulis_rows', b_and(b_not(r6.raised), r6.value is not None and tuple(np.shape(r6.value.gs)) == (2, 2 * N) and
                                 AND([arr_eq(r6.value.gs[0], g_want), arr_eq(r6.value.gs[1], g_want), eq(r6.value.ps[0], p_want), eq(r6.value.ps[1], 0)])))


def h_paulis_containers(env, N, form, L=3):
    """paulis(...) of L descriptions handed over in every accepted container form (separate arguments, list, tuple,
    generator expression, one-element generator, numpy array of code rows, generator of Pauli objects, dicts with N):
    a list of exactly L operators in the given order"""
    M = Mods(env)
    if form == 'generator1':
        L = 1
    # the middle description is symbolic, the others are fixed and pairwise different (the container logic does not look
    # at contents; one symbolic entry keeps the letter-code forking at 4^N * 2 paths)
    sym_row = 1 if L > 1 else 0
    c_sym = env.ints('codes', (N,), 0, 3)
    s_sym = env.ints('minus', (1,), 0, 1)[0]
    codes = [[(1 + j + k) % 4 for k in range(N)] for j in range(L)]
    signs = [j % 2 for j in range(L)]
    codes[sym_row] = [c_sym[k] for k in range(N)]
    signs[sym_row] = s_sym
    want_g = [oarr([v for k in range(N) for v in (ite(b_or(eq(codes[j][k], 1), eq(codes[j][k], 2)), 1, 0), ite(b_or(eq(codes[j][k], 2), eq(codes[j][k], 3)), 1, 0))]) for j in range(L)]
    plain = form in ('nparray', 'dicts')
    want_p = [0 if plain else 2 * signs[j] for j in range(L)]
    # description j: token list [4|5 (sign token), codes...] -- symbolic, no string building needed
    desc = [[codes[j][k] for k in range(N)] + ([] if plain else [4 + signs[j]]) for j in range(L)]
    if form == 'varargs':
        call = lambda: M.pa.paulis(*desc)
    elif form == 'list':
        call = lambda: M.pa.paulis(list(desc))
    elif form == 'tuple':
        call = lambda: M.pa.paulis(tuple(desc))
    elif form in ('generator', 'generator1'):
        call = lambda: M.pa.paulis(d for d in desc)
    elif form == 'generator_of_pauli':
        call = lambda: M.pa.paulis(M.pa.pauli(d) for d in desc)
    elif form == 'list_of_pauli':
        call = lambda: M.pa.paulis([M.pa.pauli(d) for d in desc])
    elif form == 'nparray':
        call = lambda: M.pa.paulis(env.np.array([[codes[j][k] for k in range(N)] for j in range(L)]) if env.symbolic else np.array([[int(codes[j][k]) for k in range(N)] for j in range(L)]))
    elif form == 'dicts':
        call = lambda: M.pa.paulis([{k: codes[j][k] for k in range(N)} for j in range(L)], N=N)
    elif form == 'paulilist':
        src = M.pa.paulis(*desc)
        call = lambda: M.pa.paulis(src)
    res = env.run(call)
    env.goal('no_exception', b_not(res.raised))
    if res.value is None:
        return
    lst = res.value
    ok = isinstance(lst, M.pa.PauliList) and tuple(np.shape(lst.gs)) == (L, 2 * N) and tuple(np.shape(lst.ps)) == (L,)
    env.goal('length_and_shape', ok)
    if ok:
        for j in range(L):
            env.goal('row%d' % j, b_and(arr_eq(lst.gs[j], want_g[j]), eq(lst.ps[j], want_p[j])))


def h_phase_arith(env, N, kind):
    M = Mods(env)
    if kind == 'Pauli':
        g = env.bits('g', (2 * N,))
        p = env.phases('p', (1,))[0]
        mk = lambda: M.pa.Pauli(g.copy(), p)
        G = lambda o: (o.g, o.p)
    else:
        g = env.bits('gs', (2, 2 * N))
        p = env.phases('ps', (2,))
        mk = lambda: M.pa.PauliList(g.copy(), p.copy())
        G = lambda o: (o.gs, o.ps)
    for name, f, shift in (('neg', lambda o: -o, 2), ('times_1', lambda o: 1 * o, 0), ('times_-1', lambda o: -1 * o, 2), ('times_i', lambda o: 1j * o, 1),
                           ('times_-i', lambda o: -1j * o, 3), ('div_i', lambda o: o / 1j, 3), ('div_-1', lambda o: o / -1, 2)):
        o = mk()
        res = env.run(lambda: f(o))
        ok = b_not(res.raised)
        if res.value is not None:
            gg, pp = G(res.value)
            ok = AND([ok, arr_eq(gg, g), arr_eq(oarr(pp), oarr((p + shift) % 4)), type(res.value) is type(o),
                      b_and(arr_eq(G(o)[0], g), arr_eq(oarr(G(o)[1]), oarr(p)))])
        env.goal(name, ok)
    o = mk()
    w = env.run(lambda: o.weight())
    if kind == 'Pauli':
        wt = sum((ite(b_or(eq(g[2 * i], 1), eq(g[2 * i + 1], 1)), 1, 0) for i in range(N)), 0)
        env.goal('weight', b_and(b_not(w.raised), eq(w.value, wt)))
        env.goal('N', o.N == N)
    else:
        for j in range(2):
            wt = sum((ite(b_or(eq(g[j][2 * i], 1), eq(g[j][2 * i + 1], 1)), 1, 0) for i in range(N)), 0)
            env.goal('weight[%d]' % j, b_and(b_not(w.raised), w.value is not None and eq(w.value[j], wt)))
        env.goal('N_L_len', o.N == N and o.L == 2 and len(o) == 2)


def h_getitem(env, N, L, kind):
    M = Mods(env)
    g = env.bits('gs', (L, 2 * N))
    p = env.phases('ps', (L,))
    if kind == 'list':
        o = M.pa.PauliList(g.copy(), p.copy())
    else:
        from .c07 import _coef_array
        cr = env.ints('c_re', (L,), 0, 6)
        cvals = [(cr[k] - 3, 0) for k in range(L)]
        o = M.pa.PauliPolynomial(g.copy(), p.copy()).set_cs(_coef_array(env, cvals))
    sels = [('int%d' % k, k, [k]) for k in range(-L, L)]
    sels += [('slice%s' % (s,), slice(*s), list(range(L))[slice(*s)]) for s in [(None, None, None), (1, None, None), (None, -1, None), (None, None, 2), (None, None, -1)]]
    for m in itertools.product((False, True), repeat=L):
        sels.append(('mask%s' % ''.join('1' if b else '0' for b in m), np.array(m, dtype=bool), [i for i in range(L) if m[i]]))
    for idx in ([0], [L - 1, 0], [0, 0]):
        sels.append(('index%s' % idx, np.array(idx), idx))
        sels.append(('indexlist%s' % idx, list(idx), idx))
    for m in itertools.product((False, True), repeat=L):
        sels.append(('masklist%s' % ''.join('1' if b else '0' for b in m), [bool(b) for b in m], [i for i in range(L) if m[i]]))
    sels.append(('npint', np.int64(L - 1), [L - 1]))
    sels.append(('emptylist', [], []))
    for name, sel, rows in sels:
        res = env.run(lambda: o[sel])
        ok = b_not(res.raised)
        if res.value is not None:
            v = res.value
            if isinstance(sel, (int, np.integer)) and not isinstance(sel, (bool, np.bool_)):
                k = rows[0]
                ok = AND([ok, arr_eq(v.g, g[k]), eq(v.p, p[k]), isinstance(v, M.pa.PauliMonomial if kind == 'poly' else M.pa.Pauli)])
                if kind == 'poly':
                    ok = b_and(ok, eq(v.c, cr[k] - 3))
            else:
                shape_ok = tuple(np.shape(v.gs)) == (len(rows), 2 * N)
                ok = b_and(ok, shape_ok)
                if shape_ok:
                    for a, k in enumerate(rows):
                        ok = AND([ok, arr_eq(v.gs[a], g[k]), eq(v.ps[a], p[k])])
                        if kind == 'poly':
                            ok = b_and(ok, eq(v.cs[a], cr[k] - 3))
        env.goal(name, ok)
    env.goal('receiver_unchanged', b_and(arr_eq(o.gs, g), arr_eq(o.ps, p)))


def h_parse_history(env, N, form):
    """parse a description, change the resulting operator in place, parse the same description again: the second
    result is the described operator (no state shared between parses, nor with the description)"""
    M = Mods(env)
    codes = env.ints('codes', (N,), 0, 3)
    gg = env.bits('gen', (2 * N,))
    g_want = oarr([v for k in range(N) for v in (ite(b_or(eq(codes[k], 1), eq(codes[k], 2)), 1, 0), ite(b_or(eq(codes[k], 2), eq(codes[k], 3)), 1, 0))])
    if form == 'string':
        desc = '-' + ''.join(LETTER[int(codes[k])] for k in range(N))
        p_want = 2
    elif form == 'list':
        desc = [codes[k] for k in range(N)]
        p_want = 0
    elif form == 'array':
        desc = env.np.array([codes[k] for k in range(N)] + [7]) if env.symbolic else np.array([int(codes[k]) for k in range(N)] + [7])
        p_want = 3
    else:
        desc = {k: codes[k] for k in range(N)}
        p_want = 0
    parse = (lambda: M.pa.pauli(desc, N)) if form == 'dict' else (lambda: M.pa.pauli(desc))
    first = env.run(parse)
    env.goal('first_parse', b_and(b_not(first.raised), first.value is not None and b_and(arr_eq(first.value.g, g_want), eq(first.value.p, p_want))))
    if first.value is None:
        return
    a = first.value
    mut = env.run(lambda: a.rotate_by(M.pa.Pauli(gg.copy(), 0)))
    env.goal('mutation_no_exception', b_not(mut.raised))
    second = env.run(parse)
    env.goal('second_parse', b_and(b_not(second.raised), second.value is not None and b_and(arr_eq(second.value.g, g_want), eq(second.value.p, p_want))))
    if second.value is not None:
        env.goal('distinct_objects', second.value is not a and not np.shares_memory(second.value.g, a.g))
    lst = env.run(lambda: M.pa.paulis(desc, desc) if form != 'dict' else M.pa.paulis(desc, desc, N=N))
    if lst.value is not None:
        l2 = lst.value
        ge, pe = ref.ref_rotate(gg, 0, g_want, p_want)
        r2 = env.run(lambda: l2[0].rotate_by(M.pa.Pauli(gg.copy(), 0)))
        env.goal('paulis_rows_are_independent_of_each_other', b_and(arr_eq(l2.gs[1], g_want), eq(l2.ps[1], p_want)))


def jobs(tier):
    J = []
    nmax = 3 if tier == 'quick' else 4
    for N in range(1, nmax + 1):
        J.append(dict(harness=('c20', 'h_tokenize_roundtrip'), params=dict(N=N), max_paths=30000, cost=4 ** N, timeout_s=60))
        J.append(dict(harness=('c20', 'h_repr_roundtrip'), params=dict(N=N), max_paths=30000, cost=4 ** N, timeout_s=60))
    for N in (1, 2):
        for prefix in ('', '+', '-', 'i', '-i', '+i'):
            J.append(dict(harness=('c20', 'h_descriptions'), params=dict(N=N, prefix=prefix), max_paths=30000, timeout_s=60))
        for form in ('string', 'list', 'array', 'dict'):
            J.append(dict(harness=('c20', 'h_parse_history'), params=dict(N=N, form=form), max_paths=30000, timeout_s=60))
        for form in ('varargs', 'list', 'tuple', 'generator', 'generator1', 'generator_of_pauli', 'list_of_pauli', 'nparray', 'dicts', 'paulilist'):
            J.append(dict(harness=('c20', 'h_paulis_containers'), params=dict(N=N, form=form), max_paths=30000, timeout_s=60))
        for how in ('rotate', 'masked_rotate', 'edit'):
            J.append(dict(harness=('c20', 'h_describe_after_update'), params=dict(N=N, how=how), max_paths=30000, timeout_s=120))
        for kind in ('Pauli', 'PauliList'):
            J.append(dict(harness=('c20', 'h_phase_arith'), params=dict(N=N, kind=kind)))
        for name in ('as_list_weight', 'list_weight', 'row_weight', 'neg_weight', 'tokenize', 'getitem'):     # read-only accessors leave the operator as described
            J.append(dict(harness=('c17', 'h_query'), params=dict(N=N, name=name), max_paths=4000))
        for L in (1, 2, 3):
            for kind in ('list', 'poly'):
                J.append(dict(harness=('c20', 'h_getitem'), params=dict(N=N, L=L, kind=kind)))
    return J
