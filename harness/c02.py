"""C02  Clifford rotation by a Pauli generator is conjugation by exp(i*pi/4*G)."""
import numpy as np
from .common import *

CLASS_LAYER = ['PauliList.rotate_by', 'Pauli.rotate_by', 'PauliPolynomial.rotate_by (inherited)',
               'CliffordMap.rotate_by (inherited)', 'StabilizerState.rotate_by (inherited)', 'Pauli.__neg__',
               'clifford_rotation_map']
TV_KERNELS = ['clifford_rotate', 'acq', 'ipow']
BOUNDS = {'quick': 'N<=3, every non-empty mask and the unmasked form, generator string and sign symbolic, operand lists L<=2 with all four phases',
          'thorough': 'N<=4, every mask; L<=3'}
OUTSIDE = 'non-Hermitian generators (documented precondition p in {0,2}); N beyond the bound; torchclifford (C13)'
ASSUMPTIONS = ['generator Hermitian: phase indicator in {0,2} (documented)', 'operands well formed (bits, phases 0..3)',
               'trusted base: U^dagger P U = P if [P,G]=0 else i P G for U=exp(i pi/4 G); the reference is checked against '
               'dense (1+iG)/sqrt2 for N<=2 on every run']


def pre(tier):
    return dict(oracle_checked=ref.self_check(2))


def _expected(gg_full, pg, gs, ps):
    out = [ref.ref_rotate(gg_full, pg, gs[j], ps[j]) for j in range(gs.shape[0])]
    return out


def h_rotate_list(env, N, mask, L, kind='list'):
    """rotate_by on a PauliList / polynomial / map / state, with or without mask"""
    M = Mods(env)
    n = N if mask is None else sum(mask)
    gg = env.bits('gen', (2 * n,))
    pg = env.signs('gen_sign', (1,))[0]
    G = M.pa.Pauli(gg.copy(), pg)
    if kind == 'state':
        L = 2 * N
    gs = env.bits('gs', (L, 2 * N))
    ps = env.phases('ps', (L,))
    if kind == 'list':
        obj = M.pa.PauliList(gs.copy(), ps.copy())
    elif kind == 'poly':
        obj = M.pa.PauliPolynomial(gs.copy(), ps.copy())
        cre = env.ints('c_re', (L,), 0, 3)
        obj.set_cs(cre * (1 + 0j) if not env.symbolic else cre.copy())
        cs_before = snapshot(obj.cs)
    elif kind == 'map':
        obj = M.st.CliffordMap(gs.copy(), ps.copy())
    elif kind == 'state':
        obj = M.st.StabilizerState(gs.copy(), ps=ps.copy()).set_r(N // 2)
    mk = None if mask is None else np.array(mask, dtype=bool)
    r = env.run(lambda: obj.rotate_by(G) if mk is None else obj.rotate_by(G, mk))
    env.goal('no_exception', b_not(r.raised))
    if r.value is None:
        return
    env.goal('returns_self', r.value is obj)
    gfull = gg if mask is None else embed_string(gg, mask, N)
    exp = _expected(gfull, pg, gs, ps)
    ok = obj.gs.shape == (L, 2 * N) and tuple(np.shape(obj.ps)) == (L,)
    env.goal('shape', ok)
    if not ok:
        return
    for j in range(L):
        env.goal('row%d_string' % j, arr_eq(obj.gs[j], exp[j][0]))
        env.goal('row%d_phase' % j, eq(obj.ps[j], exp[j][1]))
    env.goal('generator_unchanged', b_and(arr_eq(G.g, gg), eq(G.p, pg)))
    if kind == 'poly':
        env.goal('coefficients_untouched', unchanged(cs_before, obj.cs))
    if kind == 'state':
        env.goal('rank_unchanged', eq(obj.r, N // 2))


def h_rotate_views(env, N, mask, form):
    """rotate_by on a list whose table is a non-contiguous / shared view (see common.list_in_layout)"""
    M = Mods(env)
    n = N if mask is None else sum(mask)
    gg = env.bits('gen', (2 * n,))
    pg = env.signs('gen_sign', (1,))[0]
    G = M.pa.Pauli(gg.copy(), pg)
    L = 4 if form == 'strided' else 2
    gs = env.bits('gs', (L, 2 * N))
    ps = env.phases('ps', (L,))
    obj, rows, shift = list_in_layout(env, M, gs, ps, form)
    mk = None if mask is None else np.array(mask, dtype=bool)
    r = env.run(lambda: obj.rotate_by(G) if mk is None else obj.rotate_by(G, mk))
    env.goal('no_exception', b_not(r.raised))
    if r.value is None:
        return
    gfull = gg if mask is None else embed_string(gg, mask, N)
    for k, j in enumerate(rows):
        ge, pe = ref.ref_rotate(gfull, pg, gs[j], (ps[j] + shift) % 4)
        env.goal('row%d_string' % k, arr_eq(obj.gs[k], ge))
        env.goal('row%d_phase' % k, eq(obj.ps[k], pe))


def h_rotate_pauli(env, N, mask, dtype='int64'):
    """dtype: element type of the rotated operator's string array (int64 as the library builds it; uint8 as rows of
    utils.binary_repr or numpy.unpackbits are)"""
    M = Mods(env)
    n = N if mask is None else sum(mask)
    gg = env.bits('gen', (2 * n,))
    pg = env.signs('gen_sign', (1,))[0]
    G = M.pa.Pauli(gg.copy(), pg)
    g = env.bits('g', (2 * N,))
    p = env.phases('p', (1,))[0]
    if dtype == 'int64':
        P = M.pa.Pauli(g.copy(), p)
    elif env.symbolic:
        from symclif.shim_numpy import as_unsigned
        P = M.pa.Pauli(as_unsigned(g, 8), p)
    else:
        P = M.pa.Pauli(np.array([int(x) for x in g], dtype=np.uint8), p)
    mk = None if mask is None else np.array(mask, dtype=bool)
    r = env.run(lambda: P.rotate_by(G) if mk is None else P.rotate_by(G, mk))
    env.goal('no_exception', b_not(r.raised))
    if r.value is None:
        return
    gfull = gg if mask is None else embed_string(gg, mask, N)
    ge, pe = ref.ref_rotate(gfull, pg, g, p)
    env.goal('string', arr_eq(P.g, ge))
    env.goal('phase', eq(P.p, pe))
    env.goal('returns_self', r.value is P)


def h_undo(env, N, mask, L):
    """rotating by -G undoes rotating by G; four rotations by G restore every input (through the real operators)"""
    M = Mods(env)
    n = N if mask is None else sum(mask)
    gg = env.bits('gen', (2 * n,))
    pg = env.signs('gen_sign', (1,))[0]
    G = M.pa.Pauli(gg.copy(), pg)
    gs = env.bits('gs', (L, 2 * N))
    ps = env.phases('ps', (L,))
    mk = None if mask is None else np.array(mask, dtype=bool)
    rot = (lambda o, g: o.rotate_by(g)) if mk is None else (lambda o, g: o.rotate_by(g, mk))
    o1 = M.pa.PauliList(gs.copy(), ps.copy())
    r = env.run(lambda: rot(rot(o1, G), -G))
    env.goal('undo_no_exception', b_not(r.raised))
    if r.value is not None:
        env.goal('undo_string', arr_eq(o1.gs, gs))
        env.goal('undo_phase', arr_eq(o1.ps, ps))
        mG = -G
        env.goal('neg_is_minus', b_and(arr_eq(mG.g, gg), eq(mG.p, (pg + 2) % 4)))
    o2 = M.pa.PauliList(gs.copy(), ps.copy())
    r = env.run(lambda: rot(rot(rot(rot(o2, G), G), G), G))
    env.goal('four_no_exception', b_not(r.raised))
    if r.value is not None:
        env.goal('four_string', arr_eq(o2.gs, gs))
        env.goal('four_phase', arr_eq(o2.ps, ps))
    o3 = M.pa.PauliList(gs.copy(), ps.copy())
    r = env.run(lambda: rot(rot(o3, G), G))
    if r.value is not None:
        # two rotations = conjugation by G itself (up to phase): sign flips exactly on anticommuting operands
        gfull = gg if mask is None else embed_string(gg, mask, N)
        for j in range(L):
            a = ref.ref_anti(gfull, gs[j])
            env.goal('two_row%d' % j, b_and(arr_eq(o3.gs[j], gs[j]), eq(o3.ps[j], (ps[j] + 2 * ite(a, 1, 0)) % 4)))


def h_rotation_map(env, N):
    """clifford_rotation_map(G): row 2k is the rotated X_k, row 2k+1 the rotated Z_k"""
    M = Mods(env)
    gg = env.bits('gen', (2 * N,))
    pg = env.signs('gen_sign', (1,))[0]
    G = M.pa.Pauli(gg.copy(), pg)
    r = env.run(lambda: M.st.clifford_rotation_map(G))
    env.goal('no_exception', b_not(r.raised))
    if r.value is None:
        return
    m = r.value
    env.goal('type', isinstance(m, M.st.CliffordMap))
    for k in range(2 * N):
        unit = oarr([1 if i == k else 0 for i in range(2 * N)])
        ge, pe = ref.ref_rotate(gg, pg, unit, 0)
        env.goal('row%d' % k, b_and(arr_eq(m.gs[k], ge), eq(m.ps[k], pe)))
    env.goal('valid', ref.valid_map(m.gs, m.ps))
    env.goal('generator_unchanged', b_and(arr_eq(G.g, gg), eq(G.p, pg)))


def h_neg_history(env, N, kind):
    """-G is evaluated, G itself is then rotated in place (its string and sign change), -G is evaluated again: it is the
    negative of G as it is now, and rotating by it undoes rotating by G"""
    M = Mods(env)
    gg = env.bits('gen', (2 * N,))
    pg = env.signs('gen_sign', (1,))[0]
    G = M.pa.Pauli(gg.copy(), pg)
    first = env.run(lambda: -G)
    env.goal('first_negation', b_and(b_not(first.raised), b_and(arr_eq(first.value.g, gg), eq(first.value.p, (pg + 2) % 4)) if first.value is not None else False))
    kk = env.bits('k', (2 * N,))
    pk = env.signs('k_sign', (1,))[0]
    up = env.run(lambda: G.rotate_by(M.pa.Pauli(kk.copy(), pk)))
    env.goal('update_no_exception', b_not(up.raised))
    g2, p2 = ref.ref_rotate(kk, pk, gg, pg)
    env.goal('generator_updated', b_and(arr_eq(G.g, g2), eq(G.p, p2)))
    second = env.run(lambda: -G)
    env.goal('second_negation_no_exception', b_not(second.raised))
    if second.value is None:
        return
    nG = second.value
    env.goal('second_negation_is_minus_current_G', b_and(arr_eq(nG.g, g2), eq(nG.p, (p2 + 2) % 4)))
    env.goal('double_negation', (lambda r: b_and(b_not(r.raised), b_and(arr_eq(r.value.g, g2), eq(r.value.p, p2)) if r.value is not None else False))(env.run(lambda: -(-G))))
    gs = env.bits('gs', (2, 2 * N))
    ps = env.phases('ps', (2,))
    obj = M.pa.PauliList(gs.copy(), ps.copy())
    rr = env.run(lambda: obj.rotate_by(G).rotate_by(-G))
    env.goal('minus_G_undoes_G', b_and(b_not(rr.raised), b_and(arr_eq(obj.gs, gs), arr_eq(obj.ps, ps))))


def h_rotation_map_history(env, N, how):
    """request the map of a generator, change the returned map in place, request the map of the same generator again:
    the second answer is again conjugation by exp(i pi/4 G) (returned tables are the caller's to modify)"""
    M = Mods(env)
    gg = env.bits('gen', (2 * N,))
    pg = env.signs('gen_sign', (1,))[0]
    r = env.run(lambda: M.st.clifford_rotation_map(M.pa.Pauli(gg.copy(), pg)))
    env.goal('no_exception', b_not(r.raised))
    if r.value is None:
        return
    m = r.value
    if how == 'rotate':
        hh = env.bits('h', (2 * N,))
        ph = env.signs('h_sign', (1,))[0]
        r1 = env.run(lambda: m.rotate_by(M.pa.Pauli(hh.copy(), ph)))
    elif how == 'masked_rotate':
        hh = env.bits('h', (2,))
        r1 = env.run(lambda: m.rotate_by(M.pa.Pauli(hh.copy(), 0), mask=np.array([True] + [False] * (N - 1))))
    else:
        def edit():
            m.gs[0, 0] = 1 - m.gs[0, 0]
            m.ps[2 * N - 1] = (m.ps[2 * N - 1] + 2) % 4
        r1 = env.run(edit)
    env.goal('update_no_exception', b_not(r1.raised))
    r2 = env.run(lambda: M.st.clifford_rotation_map(M.pa.Pauli(gg.copy(), pg)))
    env.goal('second_no_exception', b_not(r2.raised))
    if r2.value is None:
        return
    m2 = r2.value
    env.goal('fresh_object', m2 is not m and not np.shares_memory(np.asarray(m2.gs), np.asarray(m.gs)) and not np.shares_memory(np.asarray(m2.ps), np.asarray(m.ps)))
    for k in range(2 * N):
        unit = oarr([1 if i == k else 0 for i in range(2 * N)])
        ge, pe = ref.ref_rotate(gg, pg, unit, 0)
        env.goal('second_row%d' % k, b_and(arr_eq(m2.gs[k], ge), eq(m2.ps[k], pe)))
    # and through a compiled gate generated by the same G (compile() asks for the rotation map again)
    def compiled_action():
        gate = M.ci.clifford_rotation_gate(M.pa.Pauli(gg.copy(), pg))
        gate.compile()
        lst = M.pa.PauliList(oarr([[1 if i == k else 0 for i in range(2 * N)] for k in range(2 * N)]), oarr([0] * (2 * N)))
        return gate.forward(lst)
    r3 = env.run(compiled_action)
    if r3.value is not None:
        for k in range(2 * N):
            unit = oarr([1 if i == k else 0 for i in range(2 * N)])
            ge, pe = ref.ref_rotate(gg, pg, unit, 0)
            env.goal('compiled_row%d' % k, b_implies(b_not(r3.raised), b_and(arr_eq(r3.value.gs[k], ge), eq(r3.value.ps[k], pe))))


def jobs(tier):
    J = []
    nmax = 3 if tier == 'quick' else 4
    Lmax = 2 if tier == 'quick' else 3
    for N in range(1, nmax + 1):
        mks = [None] + [m for m in masks(N) if any(m)]
        for m in mks:
            J.append(dict(harness=('c02', 'h_rotate_list'), params=dict(N=N, mask=m, L=Lmax, kind='list')))
            J.append(dict(harness=('c02', 'h_rotate_pauli'), params=dict(N=N, mask=m)))
            if N <= 2:
                J.append(dict(harness=('c02', 'h_rotate_pauli'), params=dict(N=N, mask=m, dtype='uint8')))
            if N <= 3:
                J.append(dict(harness=('c02', 'h_undo'), params=dict(N=N, mask=m, L=1)))
        for kind in ('poly', 'map', 'state'):
            for m in mks:
                if kind == 'map' and m is not None and not (sum(m) == 1 or N <= 2):
                    continue
                if kind == 'state' and m is not None and not (sum(m) <= 2 or N <= 2):
                    continue
                J.append(dict(harness=('c02', 'h_rotate_list'), params=dict(N=N, mask=m, L=(2 * N if kind == 'map' else 2), kind=kind)))
        J.append(dict(harness=('c02', 'h_rotation_map'), params=dict(N=N)))
        if N <= 2:
            J.append(dict(harness=('c02', 'h_neg_history'), params=dict(N=N, kind='pauli')))
        if N in (2, 3):
            for form in LAYOUTS[1:]:
                for m in (None, [True] + [False] * (N - 1), [False] * (N - 1) + [True], [True] * (N - 1) + [False]):
                    J.append(dict(harness=('c02', 'h_rotate_views'), params=dict(N=N, mask=m, form=form)))
        if N <= (2 if tier == 'quick' else 3):
            for how in ('rotate', 'masked_rotate', 'edit'):
                J.append(dict(harness=('c02', 'h_rotation_map_history'), params=dict(N=N, how=how), timeout_s=300, cost=10))
    return J
