"""C05  Every reachable stabilizer state is a valid density matrix (tableau invariant).

Induction: every constructor yields Inv (base), and from an ARBITRARY Inv state every public state-changing call with
arbitrary valid arguments yields Inv and raises nothing (step).  One step covers histories of any length."""
import itertools
import numpy as np
from .common import *
from .tableau import sym_state, mk_state, inv_goals, h_measure

CLASS_LAYER = ['StabilizerState.__init__/copy/set_r/measure/postselect/rotate_by/transform_by', 'CliffordMap.to_state',
               'zero_state', 'one_state', 'ghz_state', 'maximally_mixed_state', 'random_bit_state', 'random_pauli_state',
               'random_clifford_state', 'stabilizer_state', 'CliffordGate.forward/backward', 'MeasureLayer.forward',
               'Circuit.measure/forward', 'H,S,X,Y,Z,CNOT,C']
TV_KERNELS = ['stabilizer_measure', 'stabilizer_project', 'stabilizer_postselection', 'clifford_rotate', 'pauli_transform',
              'map_to_state', 'pauli_diagonalize1', 'clifford_rotate_signless']
BOUNDS = {'quick': 'N<=2 complete: arbitrary Inv pre-state of every rank x every operation with arbitrary valid arguments (measure: L<=2, every coin); constructors N<=3 (random_clifford_state N<=2)',
          'thorough': 'plus N=3: rotate_by, transform_by by constructed maps, postselect and measure (L=1, 64-way split on the observable)'}
OUTSIDE = 'set_r and direct construction from user arrays (validity is the caller\'s precondition); N beyond the bound'
ASSUMPTIONS = ['Inv(gs,ps,r): entries binary; row i anticommutes with row i+N and with no other row; all 2N phases even; 0<=r<=N',
               'standard stabilizer theory: Inv implies N-r commuting independent Hermitian generators with -I not in the group, i.e. a positive operator of trace one and rank 2^r (trusted base)']
STUBS = ['numpy.random.randint / choice -> fresh solver variables', 'random_pair rejection loop unrolled once more; the redraw is assumed accepted (each iteration draws independent fresh values)']


def pre(tier):
    return dict(oracle_checked=ref.self_check(2))


# ------------------------------------------------------------------ base: constructors
def h_constructor(env, N, which, r=None):
    M = Mods(env)
    if which == 'zero':
        f = lambda: M.st.zero_state(N)
        rexp = 0
    elif which == 'one':
        f = lambda: M.st.one_state(N)
        rexp = 0
    elif which == 'ghz':
        f = lambda: M.st.ghz_state(N)
        rexp = 0
    elif which == 'mixed':
        f = lambda: M.st.maximally_mixed_state(N)
        rexp = N
    elif which == 'random_bit':
        f = lambda: M.st.random_bit_state(N)
        rexp = 0
    elif which == 'random_pauli':
        f = lambda: M.st.random_pauli_state(N, r)
        rexp = 0 if r is None else r
    elif which == 'random_clifford':
        f = lambda: M.st.random_clifford_state(N, r)
        rexp = 0 if r is None else r
    res = env.run(f)
    env.goal('no_exception', b_not(res.raised))
    if res.value is None:
        return
    s = res.value
    env.goal('type', isinstance(s, M.st.StabilizerState))
    inv_goals(env, s.gs, s.ps, s.r, N, None, 'new_')
    env.goal('rank', eq(s.r, rexp))
    c = env.run(lambda: s.copy())
    env.goal('copy_no_exception', b_not(c.raised))
    if c.value is not None:
        env.goal('copy_equal', AND([arr_eq(c.value.gs, s.gs), arr_eq(c.value.ps, s.ps), eq(c.value.r, s.r)]))


h_constructor.uses_rng = True


def h_to_state(env, N, r):
    M = Mods(env)
    mg = env.bits('map', (2 * N, 2 * N))
    mp = env.signs('map_sign', (2 * N,))
    env.assume(ref.symplectic(mg), 'map valid')
    m = M.st.CliffordMap(mg.copy(), mp.copy())
    res = env.run(lambda: m.to_state(r))
    env.goal('no_exception', b_not(res.raised))
    if res.value is not None:
        s = res.value
        inv_goals(env, s.gs, s.ps, s.r, N, None, 'new_')
        env.goal('rank', eq(s.r, 0 if r is None else r))
        # histories with sibling objects: a second state from the same map, measured against the first; post-selecting the
        # first on a row of the map -- every state involved still satisfies Inv afterwards
        sib = env.run(lambda: m.to_state(1 if N >= 1 else None))
        if sib.value is not None:
            rho = sib.value
            r0 = rho.r
            mm = env.run(lambda: rho.measure(s))
            env.goal('sibling_measure_no_exception', b_not(mm.raised))
            if mm.value is not None:
                inv_goals(env, rho.gs, rho.ps, rho.r, N, r0, 'sibling_')
                inv_goals(env, s.gs, s.ps, s.r, N, None, 'first_after_sibling_measure_')
        ps_ = env.run(lambda: s.postselect(m[1], 0))
        if ps_.value is not None:
            inv_goals(env, s.gs, s.ps, s.r, N, None, 'after_postselect_on_map_row_')
        env.goal('map_unchanged', b_and(arr_eq(m.gs, mg), arr_eq(m.ps, mp)))


h_to_state.uses_rng = True


def h_stabilizer_state(env, N, L):
    """stabilizer_state(list): commuting independent signed stabilizers -> Inv, r = N-L"""
    M = Mods(env)
    g = env.bits('stab', (L, 2 * N))
    p = env.signs('stab_sign', (L,))
    for a in range(L):
        for b in range(a + 1, L):
            env.assume(b_not(ref.ref_anti(g[a], g[b])), 'stabilizers commute')
    # independence: no non-empty subset multiplies to the identity string
    for c in itertools.product((0, 1), repeat=L):
        if any(c):
            acc = oarr([0] * (2 * N))
            for k in range(L):
                if c[k]:
                    acc = ref.xor(acc, g[k])
            env.assume(b_not(arr_eq(acc, [0] * (2 * N))), 'stabilizers independent')
    res = env.run(lambda: M.st.stabilizer_state(M.pa.PauliList(g.copy(), p.copy())))
    env.goal('no_exception', b_not(res.raised))
    if res.value is not None:
        s = res.value
        inv_goals(env, s.gs, s.ps, s.r, N, None, 'new_')
        env.goal('rank', eq(s.r, N - L))


# ------------------------------------------------------------------ step: operations on an arbitrary Inv state
def h_step_rotate(env, N, r, mask):
    M = Mods(env)
    gs, ps = sym_state(env, N)
    n = N if mask is None else sum(mask)
    gg = env.bits('gen', (2 * n,))
    pg = env.signs('gen_sign', (1,))[0]
    state = mk_state(M, env, gs, ps, r)
    G = M.pa.Pauli(gg.copy(), pg)
    mk = None if mask is None else np.array(mask, dtype=bool)
    res = env.run(lambda: state.rotate_by(G) if mk is None else state.rotate_by(G, mk))
    env.goal('no_exception', b_not(res.raised))
    if res.value is not None:
        inv_goals(env, state.gs, state.ps, state.r, N, r)
        env.goal('rank_unchanged', eq(state.r, r))


def h_step_transform(env, N, r, mask, family='valid'):
    from .c04 import family_map, S_
    M = Mods(env)
    gs, ps = sym_state(env, N)
    n = N if mask is None else sum(mask)
    mg, mp, v = family_map(env, 'map', n, family)
    env.assume(v, 'map valid')
    state = mk_state(M, env, gs, ps, r)
    m = M.st.CliffordMap(S_(env, mg), S_(env, mp))
    mk = None if mask is None else np.array(mask, dtype=bool)
    res = env.run(lambda: state.transform_by(m) if mk is None else state.transform_by(m, mk))
    env.goal('no_exception', b_not(res.raised))
    if res.value is not None:
        inv_goals(env, state.gs, state.ps, state.r, N, r)
        env.goal('rank_unchanged', eq(state.r, r))


def h_step_postselect(env, N, r, outcome, fix=None):
    M = Mods(env)
    gs, ps = sym_state(env, N)
    g = env.bits('obs', (2 * N,)) if fix is None else env.const(fix)
    p = env.signs('obs_sign', (1,))[0]
    state = mk_state(M, env, gs, ps, r)
    res = env.run(lambda: state.postselect(M.pa.Pauli(g.copy(), p), outcome))
    if r != 0:
        env.goal('mixed_state_rejected', res.raised_kind('ValueError'))
        env.goal('state_untouched', AND([arr_eq(state.gs, gs), arr_eq(state.ps, ps), eq(state.r, r)]))
        return
    env.goal('no_exception', b_not(res.raised))
    if res.value is not None:
        inv_goals(env, state.gs, state.ps, state.r, N, r)
        env.goal('rank_unchanged', eq(state.r, 0))


def h_step_gate(env, N, r, gate, qubits, direction):
    """one named / indexed / generator gate applied to an arbitrary Inv state"""
    M = Mods(env)
    gs, ps = sym_state(env, N)
    state = mk_state(M, env, gs, ps, r)
    if gate.startswith('C') and gate != 'CNOT':
        gt = env.run(lambda: M.ci.C(int(gate[1:]), *qubits))
    elif gate == 'rot':
        gg = env.bits('gen', (2 * len(qubits),))
        pg = env.signs('gen_sign', (1,))[0]

        def mkrot():
            x = M.ci.CliffordGate(*qubits)
            x.set_generator(M.pa.Pauli(gg.copy(), pg))
            return x
        gt = env.run(mkrot)
    else:
        gt = env.run(lambda: getattr(M.ci, gate)(*qubits))
    env.goal('gate_constructed', b_not(gt.raised))
    if gt.value is None:
        return
    res = env.run(lambda: getattr(gt.value, direction)(state))
    env.goal('no_exception', b_not(res.raised))
    if res.value is not None:
        inv_goals(env, state.gs, state.ps, state.r, N, r)
        env.goal('rank_unchanged', eq(state.r, r))


def h_step_circuit(env, N, r, prog, config, direction, cls='CliffordCircuit'):
    """a whole circuit (layers packed by take(), optionally compiled into layer maps / one map) applied to an arbitrary Inv
    state: the result satisfies Inv.  Programs are shapes in which a later gate slides back past earlier layers."""
    from .circuits import make_gates, build_circuit, compile_as
    M = Mods(env)
    gs, ps = sym_state(env, N)
    state = mk_state(M, env, gs, ps, r)
    gates, tables, assumptions = make_gates(env, M, N, prog)
    for a in assumptions:
        env.assume(a, 'map gates valid')
    built = env.run(lambda: compile_as(build_circuit(M, N, gates, cls, 'orig'), config, N))
    env.goal('circuit_built', b_not(built.raised))
    if built.value is None:
        return
    res = env.run(lambda: getattr(built.value, direction)(state))
    env.goal('no_exception', b_not(res.raised))
    if res.value is not None:
        inv_goals(env, state.gs, state.ps, state.r, N, r)
        env.goal('rank_unchanged', eq(state.r, r))


def h_step_measured_circuit(env, N, r, prog):
    """a Circuit with gates and measurement layers ('M'), compiled, run forward on an arbitrary Inv state: Inv afterwards"""
    from .circuits import make_gates
    M = Mods(env)
    gs, ps = sym_state(env, N)
    state = mk_state(M, env, gs, ps, r)
    gates, _, assumptions = make_gates(env, M, N, [op for op in prog if op[0] != 'M'])
    it = iter(gates)
    circ = M.ci.Circuit(N)

    def go():
        for kind, q in prog:
            if kind == 'M':
                circ.measure(*q)
            else:
                circ.take(next(it))
        circ.compile()
        return circ.forward(state)
    res = env.run(go)
    env.goal('no_exception', b_not(res.raised))
    if res.value is not None:
        inv_goals(env, state.gs, state.ps, state.r, N, r)


h_step_measured_circuit.uses_rng = True


def h_step_measure_layer(env, N, r, qubits):
    M = Mods(env)
    gs, ps = sym_state(env, N)
    state = mk_state(M, env, gs, ps, r)
    circ = M.ci.Circuit(N)
    res = env.run(lambda: circ.measure(*qubits).forward(state))
    env.goal('no_exception', b_not(res.raised))
    if res.value is not None:
        inv_goals(env, state.gs, state.ps, state.r, N, r)


h_step_measure_layer.uses_rng = True


def h_step_random_gate(env, N, r, qubits, direction):
    """a gate without maps resamples a random Clifford per call: the state stays valid for every coin"""
    M = Mods(env)
    gs, ps = sym_state(env, N)
    state = mk_state(M, env, gs, ps, r)
    gate = M.ci.CliffordGate(*qubits)
    res = env.run(lambda: getattr(gate, direction)(state))
    env.goal('no_exception', b_not(res.raised))
    if res.value is not None:
        inv_goals(env, state.gs, state.ps, state.r, N, r)
        env.goal('rank_unchanged', eq(state.r, r))


h_step_random_gate.uses_rng = True


def h_step_query(env, N, r, which):
    """read-only queries are operations of a history too: afterwards the state still satisfies Inv (it is unchanged)"""
    M = Mods(env)
    gs, ps = sym_state(env, N)
    state = mk_state(M, env, gs, ps, r)
    go = env.bits('obs', (1, 2 * N))
    f = {'entropy0': lambda: state.entropy([0]), 'entropy_last': lambda: state.entropy([N - 1]), 'entropy_mask': lambda: state.entropy(np.array([True] + [False] * (N - 1))),
         'expect': lambda: state.expect(M.pa.PauliList(go.copy(), env.const([0]))), 'sample': lambda: state.sample(1), 'density_matrix': lambda: state.density_matrix,
         'to_map': lambda: state.to_map(), 'tokenize': lambda: state.tokenize(), 'stabilizers': lambda: state.stabilizers, 'repr': lambda: repr(state) if N == 1 else None,
         'copy': lambda: state.copy()}[which]
    res = env.run(f)
    env.goal('no_exception', b_not(res.raised))
    inv_goals(env, state.gs, state.ps, state.r, N, r)
    env.goal('rank_unchanged', eq(state.r, r))
    env.goal('tableau_unchanged', b_and(arr_eq(state.gs, gs), arr_eq(state.ps, ps)))


h_step_query.uses_rng = True


def jobs(tier):
    J = []
    for N in (1, 2, 3):
        for which in ('zero', 'one', 'ghz', 'mixed', 'random_bit'):
            if which == 'ghz' and N == 1:
                pass
            J.append(dict(harness=('c05', 'h_constructor'), params=dict(N=N, which=which)))
        for r in (None, N, N - 1):
            J.append(dict(harness=('c05', 'h_constructor'), params=dict(N=N, which='random_pauli', r=r)))
        for L in range(1, N + 1):
            J.append(dict(harness=('c05', 'h_stabilizer_state'), params=dict(N=N, L=L), timeout_s=300, cost=2 * N * L))
    for N in (1, 2):
        for r in (None, 1):
            J.append(dict(harness=('c05', 'h_constructor'), params=dict(N=N, which='random_clifford', r=r), cost=10))
            J.append(dict(harness=('c05', 'h_to_state'), params=dict(N=N, r=r)))
    nmax = 2 if tier == 'quick' else 3
    for N in range(1, nmax + 1):
        for r in range(N + 1):
            for m in [None] + [m for m in masks(N) if any(m) and not all(m)]:
                J.append(dict(harness=('c05', 'h_step_rotate'), params=dict(N=N, r=r, mask=m), timeout_s=300, cost=N * N))
                if N <= 2:
                    J.append(dict(harness=('c05', 'h_step_transform'), params=dict(N=N, r=r, mask=m), timeout_s=300, cost=10 * N))
                else:
                    n = N if m is None else sum(m)
                    for fam in (['rotation'] if n > 2 else ['valid']):
                        J.append(dict(harness=('c05', 'h_step_transform'), params=dict(N=N, r=r, mask=m, family=fam), timeout_s=600, cost=40))
            for outcome in (0, 1):
                if N <= 2:
                    J.append(dict(harness=('c05', 'h_step_postselect'), params=dict(N=N, r=r, outcome=outcome), timeout_s=300, cost=5))
            if N <= 2:
                for L in (1, 2):
                    J.append(dict(harness=('tableau', 'h_measure'), params=dict(N=N, r=r, L=L, goals='inv', repeat=False), timeout_s=300, cost=10 * L))
                for qs in [q for k in (1, 2) for q in itertools.combinations(range(N), k)]:
                    J.append(dict(harness=('c05', 'h_step_measure_layer'), params=dict(N=N, r=r, qubits=list(qs)), timeout_s=300, cost=8))
    for N in (2, 3):
        for r in range(N + 1):
            for which in (('entropy0', 'entropy_last', 'entropy_mask') if r < N else ()) + (('expect', 'sample', 'density_matrix', 'to_map', 'tokenize', 'stabilizers', 'copy') if N == 2 else ()):
                J.append(dict(harness=('c05', 'h_step_query'), params=dict(N=N, r=r, which=which), timeout_s=600, cost=10 * N, max_paths=5000))
    # one gate of each kind on an arbitrary Inv state (N=2, all ranks; placement of one- and two-qubit gates)
    N = 2
    for r in range(N + 1):
        for direction in ('forward', 'backward'):
            for gate in ('H', 'S', 'X', 'Y', 'Z'):
                for q in range(N):
                    J.append(dict(harness=('c05', 'h_step_gate'), params=dict(N=N, r=r, gate=gate, qubits=[q], direction=direction)))
            for qs in ([0, 1], [1, 0]):
                J.append(dict(harness=('c05', 'h_step_gate'), params=dict(N=N, r=r, gate='CNOT', qubits=qs, direction=direction)))
            for qs in ([0], [1], [0, 1]):
                J.append(dict(harness=('c05', 'h_step_gate'), params=dict(N=N, r=r, gate='rot', qubits=qs, direction=direction)))
            J.append(dict(harness=('c05', 'h_step_random_gate'), params=dict(N=N, r=r, qubits=[0], direction=direction), cost=5))
            J.append(dict(harness=('c05', 'h_step_random_gate'), params=dict(N=N, r=r, qubits=[0, 1], direction=direction), cost=20, timeout_s=300))
        for k in range(24):
            J.append(dict(harness=('c05', 'h_step_gate'), params=dict(N=N, r=r, gate='C%d' % k, qubits=[k % 2], direction='forward' if k % 2 else 'backward')))
    # whole circuits on an arbitrary Inv state of three qubits; the disjointness of gates sharing a layer (which compile()
    # relies on) is the packing lemma, decided on every placement shape with four operations
    progs = [[['CNOT', [0, 1]], ['H', [0]], ['CNOT', [1, 2]], ['H', [1]]],
             [['H', [2]], ['CNOT', [0, 1]], ['S', [0]], ['CNOT', [2, 1]]],
             [['gen', [0, 1]], ['gen', [2]], ['gen', [1, 2]], ['gen', [0]]],
             [['S', [1]], ['CNOT', [1, 2]], ['H', [0]], ['CNOT', [0, 2]], ['H', [1]]]]
    for prog in progs:
        for config in ('plain', 'layers', 'circuit'):
            for r in (0, 1) if tier == 'quick' else (0, 1, 2, 3):
                J.append(dict(harness=('c05', 'h_step_circuit'), params=dict(N=3, r=r, prog=prog, config=config, direction='forward' if r == 0 else 'backward'),
                              timeout_s=300, cost=15))
    J.append(dict(harness=('circuits', 'h_packing_all'), params=dict(N=3, n_ops=4), cost=12))
    for N in (2, 3):
        J.append(dict(harness=('circuits', 'h_packing_all'), params=dict(N=N, n_ops=3, cls='Circuit', with_measure=True), cost=5))
    # compiled circuits with a mid-circuit measurement on an arbitrary Inv state
    for prog in ([['CNOT', [0, 1]], ['M', [0]], ['H', [1]]], [['CNOT', [1, 0]], ['H', [0]], ['M', [1]], ['S', [0]], ['H', [1]]]):
        for r in (0, 1):
            J.append(dict(harness=('c05', 'h_step_measured_circuit'), params=dict(N=2, r=r, prog=prog), timeout_s=300, cost=15))
    if tier == 'thorough':
        for fix in itertools.product((0, 1), repeat=6):
            for r in range(4):
                J.append(dict(harness=('tableau', 'h_measure'), params=dict(N=3, r=r, L=1, fix=[list(fix)], goals='inv', repeat=False),
                              timeout_s=300, label='split64:h_measure_inv[N=3,r=%d,obs=%s]' % (r, ''.join(map(str, fix)))))
            if any(fix):
                for outcome in (0, 1):
                    J.append(dict(harness=('c05', 'h_step_postselect'), params=dict(N=3, r=0, outcome=outcome, fix=list(fix)), timeout_s=300,
                                  label='split64:h_step_postselect[N=3,out=%d,obs=%s]' % (outcome, ''.join(map(str, fix)))))
    return J
