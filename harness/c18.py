"""C18  diagonalize and SBRG return circuits that really diagonalize."""
import itertools
import numpy as np
from .common import *
from .tableau import sym_state, mk_state
from symclif.values import parts

CLASS_LAYER = ['diagonalize', 'clifford_rotation_gate', 'identity_circuit', 'CliffordCircuit.take/forward/backward/compose', 'CliffordGate.forward/backward',
               'StabilizerState.to_map', 'CliffordMap.inverse', 'SBRG', 'PauliPolynomial.__getitem__/__matmul__/__add__/reduce/copy', 'PauliMonomial.inverse', 'pauli_zero']
TV_KERNELS = ['pauli_diagonalize1', 'front', 'pauli_is_onsite', 'condense', 'clifford_rotate', 'z2inv', 'pauli_transform']
BOUNDS = {'quick': 'diagonalize(P): symbolic non-identity signed Pauli, every target qubit, causal on/off, N<=3; diagonalize(state): arbitrary pure Inv state N<=2; SBRG: N<=2, <=2 terms, term strings symbolic, coefficients concrete with distinct magnitudes',
          'thorough': 'diagonalize(P) N<=4; SBRG with 3 terms at N=2'}
OUTSIDE = 'SBRG with symbolic coefficients (argmax, tolerance and the second-order correction are float-driven); spectrum preservation for non-commuting inputs; N beyond the bound'
ASSUMPTIONS = ['P is not the identity (documented); in causal mode the part of P on qubits >= i0 is not the identity', 'state pure and Inv']


def pre(tier):
    return dict(oracle_checked=ref.self_check(2))


def h_diag_pauli(env, N, i0, causal, form='pauli', warmup=()):
    """warmup: earlier diagonalize calls in the same process, [(N', i0', causal')], each on its own arbitrary operator --
    a later call must not depend on what was diagonalized before (other register sizes, other targets)"""
    M = Mods(env)
    for k, (Nw, iw, cw) in enumerate(warmup):
        gw = env.bits('warm%d' % k, (2 * Nw,))
        tw = gw[2 * iw:] if cw else gw
        env.assume(b_not(arr_eq(tw, [0] * len(tw))), 'warm-up operator (its relevant part) is not the identity')
        env.run(lambda: M.ci.diagonalize(M.pa.Pauli(gw.copy(), 0), iw, causal=cw))
    g = env.bits('g', (2 * N,))
    p = env.signs('sign', (1,))[0]
    tail = g[2 * i0:] if causal else g
    env.assume(b_not(arr_eq(tail, [0] * len(tail))), 'operator (its part on qubits >= i0 in causal mode) is not the identity')
    P = M.pa.Pauli(g.copy(), p) if form == 'pauli' else M.pa.PauliMonomial(g.copy(), p).set_c(-2.5)
    i0_arg = {'npint': np.int64(i0), 'negative': i0 - N}.get(form, i0)      # negative: the same qubit counted from the end
    res = env.run(lambda: M.ci.diagonalize(P, i0_arg, causal=causal))
    env.goal('no_exception', b_not(res.raised))
    if res.value is None:
        return
    circ = res.value
    env.goal('argument_unchanged', b_and(arr_eq(P.g, g), eq(P.p, p)))
    Q = M.pa.Pauli(g.copy(), p).as_list()
    r2 = env.run(lambda: circ.forward(Q))
    env.goal('forward_no_exception', b_not(r2.raised))
    if r2.value is None:
        return
    out = Q.gs[0]
    if causal:
        for k in range(2 * i0):
            env.goal('earlier_qubit_bit%d_untouched' % k, eq(out[k], g[k]))
        want = [0] * (2 * (N - i0))
        want[1] = 1
        env.goal('tail_is_Z_on_i0', arr_eq(out[2 * i0:], want))
        gates = [gt for l in circ.layers_forward() for gt in l.gates]
        env.goal('gates_act_on_i0_and_later_only', all(min(int(q) % N for q in gt.qubits) >= i0 for gt in gates))
    else:
        want = [0] * (2 * N)
        want[2 * i0 + 1] = 1
        env.goal('is_Z_on_i0', arr_eq(out, want))
    env.goal('sign_is_plus_or_minus', eq(Q.ps[0] % 2, 0))
    back = env.run(lambda: circ.backward(Q))
    env.goal('backward_restores', b_and(b_not(back.raised), b_and(arr_eq(Q.gs[0], g), eq(Q.ps[0], p))))


def h_diag_state(env, N):
    M = Mods(env)
    gs, ps = sym_state(env, N)
    state = mk_state(M, env, gs, ps, 0)
    res = env.run(lambda: M.ci.diagonalize(state))
    env.goal('no_exception', b_not(res.raised))
    if res.value is None:
        return
    circ = res.value
    env.goal('argument_unchanged', AND([arr_eq(state.gs, gs), arr_eq(state.ps, ps), eq(state.r, 0)]))
    work = mk_state(M, env, gs, ps, 0)
    f = env.run(lambda: circ.forward(work))
    env.goal('forward_no_exception', b_not(f.raised))
    if f.value is not None:
        for i in range(N):
            want = [0] * (2 * N)
            want[2 * i + 1] = 1
            env.goal('stabilizer[%d]_becomes_+Z%d' % (i, i), b_and(arr_eq(work.gs[i], want), eq(work.ps[i], 0)))
        env.goal('rank', eq(work.r, 0))
    z = env.run(lambda: circ.backward(M.st.zero_state(N)))
    env.goal('backward_no_exception', b_not(z.raised))
    if z.value is not None:
        enc = z.value
        for i in range(N):
            env.goal('re-encoded_stabilizer[%d]' % i, b_and(arr_eq(enc.gs[i], gs[i]), eq(enc.ps[i], ps[i])))
    # history: the same state object is changed in place (rotated) and diagonalized again
    gg = env.bits('gen', (2 * N,))
    pg = env.signs('gen_sign', (1,))[0]
    up = env.run(lambda: state.rotate_by(M.pa.Pauli(gg.copy(), pg)))
    env.goal('update_no_exception', b_not(up.raised))
    now_g, now_p = snapshot(state.gs), snapshot(state.ps)
    res2 = env.run(lambda: M.ci.diagonalize(state))
    env.goal('second_no_exception', b_not(res2.raised))
    if res2.value is not None:
        work2 = M.st.StabilizerState(state.gs.copy(), ps=state.ps.copy()).set_r(0)
        f2 = env.run(lambda: res2.value.forward(work2))
        env.goal('second_forward_no_exception', b_not(f2.raised))
        if f2.value is not None:
            for i in range(N):
                want = [0] * (2 * N)
                want[2 * i + 1] = 1
                env.goal('after_update_stabilizer[%d]_becomes_+Z%d' % (i, i), b_and(arr_eq(work2.gs[i], want), eq(work2.ps[i], 0)))


def h_sbrg_general(env, N, coefs):
    """arbitrary (possibly non-commuting) Hamiltonian with symbolic term strings and concrete dyadic coefficients:
    the effective Hamiltonian contains only I/Z strings and the input is untouched"""
    M = Mods(env)
    T = len(coefs)
    g = env.bits('terms', (T, 2 * N))
    for a in range(T):
        env.assume(b_not(arr_eq(g[a], [0] * (2 * N))), 'terms are not the identity')
        for b in range(a + 1, T):
            env.assume(b_not(arr_eq(g[a], g[b])), 'terms are distinct strings')
    cs = np.array([complex(c) for c in coefs]) if not env.symbolic else env.const([complex(c) for c in coefs])
    H = M.pa.PauliPolynomial(g.copy(), env.const([0] * T) if env.symbolic else np.zeros(T, dtype=int)).set_cs(cs)
    res = env.run(lambda: M.ci.SBRG(H))
    env.goal('no_exception', b_not(res.raised))
    if res.value is None:
        return
    heff, circ = res.value
    env.goal('input_unchanged', b_and(arr_eq(H.gs, g), arr_eq(H.cs, cs)))
    env.goal('heff_only_I_Z', AND(eq(heff.gs[k][2 * i], 0) for k in range(heff.gs.shape[0]) for i in range(N)))
    env.goal('circuit_is_a_circuit', isinstance(circ, M.ci.CliffordCircuit))


def h_sbrg(env, N, coefs, fix=None, signed=False):
    """commuting-term Hamiltonian with symbolic term strings and concrete coefficients: heff has only I/Z strings and
    circ.forward(H) equals heff as an operator (coefficient vector over the Pauli basis)"""
    M = Mods(env)
    T = len(coefs)
    g = env.bits('terms', (T, 2 * N))
    if fix is not None:
        # case split: the strings of the leading terms are fixed, the remaining ones stay symbolic
        for k, row in enumerate(fix):
            for i, v in enumerate(row):
                g[k][i] = v
    for a in range(T):
        env.assume(b_not(arr_eq(g[a], [0] * (2 * N))), 'terms are not the identity')
        for b in range(a + 1, T):
            env.assume(b_not(ref.ref_anti(g[a], g[b])), 'all terms commute')
            env.assume(b_not(arr_eq(g[a], g[b])), 'terms are distinct strings')
    cs = np.array([complex(c) for c in coefs]) if not env.symbolic else env.const([complex(c) for c in coefs])
    # signed: the terms carry their signs in the phase indicators (an unreduced polynomial, e.g. built from a signed list
    # or rotated by a circuit) instead of in the coefficients
    hp = env.signs('term_sign', (T,)) if signed else (env.const([0] * T) if env.symbolic else np.zeros(T, dtype=int))
    H = M.pa.PauliPolynomial(g.copy(), hp.copy()).set_cs(cs)
    res = env.run(lambda: M.ci.SBRG(H))
    env.goal('no_exception', b_not(res.raised))
    if res.value is None:
        return
    heff, circ = res.value
    env.goal('input_unchanged', AND([arr_eq(H.gs, g), arr_eq(H.cs, cs), arr_eq(H.ps, hp)]))
    env.goal('heff_only_I_Z', AND(eq(heff.gs[k][2 * i], 0) for k in range(heff.gs.shape[0]) for i in range(N)))
    W = M.pa.PauliPolynomial(g.copy(), hp.copy()).set_cs(cs.copy())
    f = env.run(lambda: circ.forward(W))
    env.goal('forward_no_exception', b_not(f.raised))
    if f.value is None:
        return
    # compare as operators: coefficient of every Pauli string s
    for s in itertools.product((0, 1), repeat=2 * N):
        def coef(poly):
            re, im = 0, 0
            for k in range(poly.gs.shape[0]):
                hit = arr_eq(poly.gs[k], list(s))
                cr, ci = parts(poly.cs[k] * (1j) ** poly.ps[k])
                re = re + ite(hit, 1, 0) * cr
                im = im + ite(hit, 1, 0) * ci
            return re, im
        a, b = coef(W), coef(heff)
        env.goal('coefficient_of_%s' % ''.join(map(str, s)), b_and(eq(a[0], b[0]), eq(a[1], b[1])))


def jobs(tier):
    J = []
    nmax = 3 if tier == 'quick' else 4
    for N in range(1, nmax + 1):
        for i0 in range(N):
            for causal in (False, True):
                J.append(dict(harness=('c18', 'h_diag_pauli'), params=dict(N=N, i0=i0, causal=causal), timeout_s=300, cost=N))
                if N == 2:
                    J.append(dict(harness=('c18', 'h_diag_pauli'), params=dict(N=N, i0=i0, causal=causal, form='monomial'), timeout_s=300, cost=N))
                if N in (2, 3):
                    for form in ('npint', 'negative'):
                        J.append(dict(harness=('c18', 'h_diag_pauli'), params=dict(N=N, i0=i0, causal=causal, form=form), timeout_s=300, cost=N))
    for N, i0, causal, warm in ((3, 1, True, [[2, 0, False]]), (3, 1, True, [[2, 0, True]]), (2, 1, False, [[3, 0, False]]), (3, 2, True, [[3, 1, True]]),
                                (2, 0, True, [[3, 1, True], [2, 1, False]])):
        J.append(dict(harness=('c18', 'h_diag_pauli'), params=dict(N=N, i0=i0, causal=causal, warmup=warm), timeout_s=600, cost=20, max_paths=20000))
    for N in (1, 2):
        J.append(dict(harness=('c18', 'h_diag_state'), params=dict(N=N), timeout_s=600, cost=30))
    for N in (1, 2):
        for coefs in ([2], [3, -1], [1, 2]) + (([1, -3, 2],) if tier == 'thorough' else ()):
            pass
        for coefs in ([2], [3, -1], [1, 2]) + (([1, -3, 2],) if tier == 'thorough' else ()):
            if len(coefs) <= 2 ** N - 1:
                J.append(dict(harness=('c18', 'h_sbrg'), params=dict(N=N, coefs=list(coefs)), timeout_s=600, cost=50, max_paths=20000))
                if coefs != [1, 2]:
                    J.append(dict(harness=('c18', 'h_sbrg'), params=dict(N=N, coefs=list(coefs), signed=True), timeout_s=600, cost=50, max_paths=20000))
    for f1 in itertools.product((0, 1), repeat=6):
        if any(f1) and (tier == 'thorough' or f1 == (0, 1, 0, 1, 0, 0)):
            if True:
                J.append(dict(harness=('c18', 'h_sbrg'), params=dict(N=3, coefs=[3, 2, 1], fix=[list(f1)]), timeout_s=300, cost=100, max_paths=60000, wall_s=900,
                              label='split63:h_sbrg[N=3, leading=%s]' % ''.join(map(str, f1))))
    for N, coefs in ((1, [2, 1]), (2, [2, 1]), (2, [4, 1, 2])):
        J.append(dict(harness=('c18', 'h_sbrg_general'), params=dict(N=N, coefs=list(coefs)), timeout_s=600, cost=50, max_paths=20000))
    return J
