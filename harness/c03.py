"""C03  Applying a Clifford map is a unitary conjugation (phase-exact homomorphism)."""
import numpy as np
from .common import *

CLASS_LAYER = ['PauliList.transform_by', 'Pauli.transform_by', 'PauliPolynomial.transform_by (inherited)',
               'CliffordMap.embed', 'identity_map', 'clifford_rotation_map', 'Pauli.__matmul__']
TV_KERNELS = ['pauli_combine', 'pauli_transform', 'ps0', 'ipow', 'clifford_rotate']
BOUNDS = {'quick': '(a) definition of the homomorphic extension, any table: N<=3, L<=2; (b) homomorphism T(PQ)=T(P)T(Q) over ALL valid maps, P, Q, phases: N<=2; (d) masks: every mask of N<=3 with symbolic small maps; (e) rotation map vs rotation N<=3',
          'thorough': '(a),(d),(e) N<=4; (b) N<=2 plus N=3 as stretch (not claimed)'}
OUTSIDE = 'homomorphism over all valid maps for N>=3 (phase conjunct unknown after 600 s in the prototype); existence of the unitary U is the standard theorem applied to (a)+(b), not a solver result'
ASSUMPTIONS = ['valid map: rows satisfy the canonical commutation relations (reference anticommutation) and phases are even',
               'trusted base: sigma(g) = i^(x.z) prod_k X_k^x_k Z_k^z_k, checked against dense matrices on every run']


def pre(tier):
    return dict(oracle_checked=ref.self_check(2))


def embedded_table(mg, mp, mask, N):
    """reference embedding of an n-qubit table among identity wires"""
    g = np.empty((2 * N, 2 * N), dtype=object)
    p = np.empty((2 * N,), dtype=object)
    k = 0
    for i in range(N):
        for b in (0, 1):
            if mask[i]:
                g[2 * i + b] = embed_string(mg[2 * k + b], mask, N)
                p[2 * i + b] = mp[2 * k + b]
            else:
                g[2 * i + b] = oarr([1 if c == 2 * i + b else 0 for c in range(2 * N)])
                p[2 * i + b] = 0
        if mask[i]:
            k += 1
    return g, p


def h_definition(env, N, mask, L, kind='list', dtype='int64', mask_form='array'):
    """transform_by (masked or not) equals the homomorphic extension of the listed images, for ANY table"""
    M = Mods(env)
    n = N if mask is None else sum(mask)
    mg = env.bits('map', (2 * n, 2 * n))
    mp = env.phases('map_ps', (2 * n,))
    m = M.st.CliffordMap(mg.copy(), mp.copy())
    gs = env.bits('gs', (L, 2 * N))
    ps = env.phases('ps', (L,))
    if kind == 'list':
        obj = M.pa.PauliList(as_dtype(env, gs, dtype), as_dtype(env, ps, dtype))
    elif kind == 'pauli':
        obj = M.pa.Pauli(as_dtype(env, gs[0], dtype), ps[0])
    else:
        obj = M.pa.PauliPolynomial(gs.copy(), ps.copy())
        cre = env.ints('c_re', (L,), 0, 3)
        obj.set_cs(cre * (1 + 0j) if not env.symbolic else cre.copy())
        cs_before = snapshot(obj.cs)
    # mask_form: numpy bool array (as utils.mask builds it) or a plain Python list / tuple of bools
    mk = None if mask is None else {'array': lambda: np.array(mask, dtype=bool), 'list': lambda: [bool(b) for b in mask], 'tuple': lambda: tuple(bool(b) for b in mask)}[mask_form]()
    r = env.run(lambda: obj.transform_by(m) if mk is None else obj.transform_by(m, mk))
    env.goal('no_exception', b_not(r.raised))
    if r.value is None:
        return
    env.goal('returns_self', r.value is obj)
    tg, tp = (mg, mp) if mask is None else embedded_table(mg, mp, mask, N)
    rows = [(obj.g, obj.p)] if kind == 'pauli' else [(obj.gs[j], obj.ps[j]) for j in range(L)]
    for j, (g_out, p_out) in enumerate(rows):
        ge, pe = ref.ref_transform(gs[j], ps[j], tg, tp)
        env.goal('row%d_string' % j, arr_eq(g_out, ge))
        env.goal('row%d_phase' % j, eq(p_out, pe))
    env.goal('map_unchanged', b_and(arr_eq(m.gs, mg), arr_eq(m.ps, mp)))
    if kind == 'poly':
        env.goal('coefficients_untouched', unchanged(cs_before, obj.cs))


def h_definition_views(env, N, mask, form):
    """transform_by on a list whose table is a non-contiguous / shared view (see common.list_in_layout); mask given
    as a boolean array or as a Python list of booleans"""
    M = Mods(env)
    n = N if mask is None else sum(mask)
    mg = env.bits('map', (2 * n, 2 * n))
    mp = env.phases('map_ps', (2 * n,))
    m = M.st.CliffordMap(mg.copy(), mp.copy())
    L = 4 if form == 'strided' else 2
    gs = env.bits('gs', (L, 2 * N))
    ps = env.phases('ps', (L,))
    obj, rows, shift = list_in_layout(env, M, gs, ps, form)
    mk = None if mask is None else np.array(mask, dtype=bool)
    r = env.run(lambda: obj.transform_by(m) if mk is None else obj.transform_by(m, mk))
    env.goal('no_exception', b_not(r.raised))
    if r.value is None:
        return
    tg, tp = (mg, mp) if mask is None else embedded_table(mg, mp, mask, N)
    for k, j in enumerate(rows):
        ge, pe = ref.ref_transform(gs[j], (ps[j] + shift) % 4, tg, tp)
        env.goal('row%d_string' % k, arr_eq(obj.gs[k], ge))
        env.goal('row%d_phase' % k, eq(obj.ps[k], pe))
    env.goal('map_unchanged', b_and(arr_eq(m.gs, mg), arr_eq(m.ps, mp)))


def h_embed(env, N, mask):
    """identity_map(N).embed(m, mask) is the reference embedding; transform_by(m, mask) == transform_by(embedded)"""
    M = Mods(env)
    n = sum(mask)
    mg = env.bits('map', (2 * n, 2 * n))
    mp = env.phases('map_ps', (2 * n,))
    m = M.st.CliffordMap(mg.copy(), mp.copy())
    mk = np.array(mask, dtype=bool)
    r = env.run(lambda: M.st.identity_map(N).embed(m, mk))
    env.goal('no_exception', b_not(r.raised))
    if r.value is None:
        return
    big = r.value
    tg, tp = embedded_table(mg, mp, mask, N)
    env.goal('embedded_strings', arr_eq(big.gs, tg))
    env.goal('embedded_phases', arr_eq(big.ps, tp))
    gs = env.bits('gs', (1, 2 * N))
    ps = env.phases('ps', (1,))
    o1 = M.pa.PauliList(gs.copy(), ps.copy())
    o2 = M.pa.PauliList(gs.copy(), ps.copy())
    r2 = env.run(lambda: (o1.transform_by(m, mk), o2.transform_by(big)))
    env.goal('no_exception2', b_not(r2.raised))
    if r2.value is not None:
        env.goal('masked_equals_embedded', b_and(arr_eq(o1.gs, o2.gs), arr_eq(o1.ps, o2.ps)))
    im = env.run(lambda: M.st.identity_map(N))
    if im.value is not None:
        env.goal('identity_map', b_and(arr_eq(im.value.gs, np.eye(2 * N, dtype=int)), arr_eq(im.value.ps, [0] * (2 * N))))


def h_homomorphism(env, N, fix=None):
    """for every valid map and all P, Q with all phases: T(P Q) = T(P) T(Q) exactly (through the real operators);
    hence commutation, Hermiticity and squares are preserved"""
    M = Mods(env)
    mg = env.bits('map', (2 * N, 2 * N)) if fix is None else env.const(fix)
    mp = env.signs('map_sign', (2 * N,))
    env.assume(ref.symplectic(mg), 'map rows satisfy the canonical commutation relations; map phases even')
    g = env.bits('g', (2, 2 * N))
    p = env.phases('p', (2,))
    m = M.st.CliffordMap(mg.copy(), mp.copy())
    P = M.pa.Pauli(g[0].copy(), p[0])
    Q = M.pa.Pauli(g[1].copy(), p[1])

    def go():
        PQ = P @ Q
        P.transform_by(m)
        Q.transform_by(m)
        PQ.transform_by(m)
        return PQ
    r = env.run(go)
    env.goal('no_exception', b_not(r.raised))
    if r.value is None:
        return
    PQ = r.value
    ge, pe = ref.ref_mul(P.g, P.p, Q.g, Q.p)
    for i in range(2 * N):
        env.goal('product_string[%d]' % i, eq(PQ.g[i], ge[i]))
    env.goal('product_phase', eq(PQ.p, pe))
    env.goal('commutation_preserved', eq(ref.ref_anti(P.g, Q.g), ref.ref_anti(g[0], g[1])))
    env.goal('hermiticity_preserved', eq(P.p % 2, p[0] % 2))
    env.goal('identity_to_identity', b_implies(arr_eq(g[0], [0] * (2 * N)), b_and(arr_eq(P.g, [0] * (2 * N)), eq(P.p, p[0]))))


def h_rotation_map_acts_as_rotation(env, N):
    M = Mods(env)
    gg = env.bits('gen', (2 * N,))
    pg = env.signs('gen_sign', (1,))[0]
    G = M.pa.Pauli(gg.copy(), pg)
    gs = env.bits('gs', (1, 2 * N))
    ps = env.phases('ps', (1,))
    o1 = M.pa.PauliList(gs.copy(), ps.copy())
    o2 = M.pa.PauliList(gs.copy(), ps.copy())
    r = env.run(lambda: (o1.transform_by(M.st.clifford_rotation_map(G)), o2.rotate_by(G)))
    env.goal('no_exception', b_not(r.raised))
    if r.value is not None:
        env.goal('same_string', arr_eq(o1.gs, o2.gs))
        env.goal('same_phase', arr_eq(o1.ps, o2.ps))
        ge, pe = ref.ref_rotate(gg, pg, gs[0], ps[0])
        env.goal('equals_reference', b_and(arr_eq(o1.gs[0], ge), eq(o1.ps[0], pe)))


def h_alias(env, N, how):
    """the operators being transformed may share storage with the map that is applied (a map is itself a Pauli list):
    m.transform_by(m) squares the map, a slice of m transformed by m gives the images of those rows and leaves m intact"""
    M = Mods(env)
    mg = env.bits('map', (2 * N, 2 * N))
    mp = env.phases('map_ps', (2 * N,))
    m = M.st.CliffordMap(mg.copy(), mp.copy())
    want = [ref.ref_transform(mg[i], mp[i], mg, mp) for i in range(2 * N)]
    if how == 'self':
        res = env.run(lambda: m.transform_by(m))
        env.goal('no_exception', b_not(res.raised))
        if res.value is not None:
            for i in range(2 * N):
                env.goal('row%d' % i, b_and(arr_eq(m.gs[i], want[i][0]), eq(m.ps[i], want[i][1])))
        return
    lo, hi = (0, 2 * N - 1) if how == 'slice_head' else (1, 2 * N)
    view = m[lo:hi] if how != 'row' else m[2 * N - 1]
    res = env.run(lambda: view.transform_by(m))
    env.goal('no_exception', b_not(res.raised))
    if res.value is not None:
        if how == 'row':
            env.goal('image', b_and(arr_eq(view.g, want[2 * N - 1][0]), eq(view.p, want[2 * N - 1][1])))
        else:
            for k, i in enumerate(range(lo, hi)):
                env.goal('row%d' % i, b_and(arr_eq(view.gs[k], want[i][0]), eq(view.ps[k], want[i][1])))
        env.goal('argument_map_unchanged', b_and(arr_eq(m.gs, mg), arr_eq(m.ps, mp)))


def jobs(tier):
    J = []
    nmax = 3 if tier == 'quick' else 4
    for N in range(1, nmax + 1):
        mks = [None] + [m for m in masks(N) if any(m)]
        for m in mks:
            J.append(dict(harness=('c03', 'h_definition'), params=dict(N=N, mask=m, L=2, kind='list')))
            J.append(dict(harness=('c03', 'h_definition'), params=dict(N=N, mask=m, L=1, kind='pauli')))
            if m is not None and N in (2, 3) and sum(m) < N:
                for form in ('list', 'tuple'):
                    J.append(dict(harness=('c03', 'h_definition'), params=dict(N=N, mask=m, L=1, kind='list', mask_form=form)))
            if N <= 2:
                J.append(dict(harness=('c03', 'h_definition'), params=dict(N=N, mask=m, L=2, kind='list', dtype='uint8')))
                J.append(dict(harness=('c03', 'h_definition'), params=dict(N=N, mask=m, L=1, kind='pauli', dtype='uint8')))
            if N <= 3:
                J.append(dict(harness=('c03', 'h_definition'), params=dict(N=N, mask=m, L=2, kind='poly')))
            if m is not None:
                J.append(dict(harness=('c03', 'h_embed'), params=dict(N=N, mask=m)))
        J.append(dict(harness=('c03', 'h_rotation_map_acts_as_rotation'), params=dict(N=N)))
        if N <= 2:
            for form in LAYOUTS[1:]:      # rotate_by and the rotation map agree on every storage layout of the operand
                J.append(dict(harness=('c02', 'h_rotate_views'), params=dict(N=N, mask=None, form=form)))
            for how in ('rotate', 'masked_rotate', 'edit'):      # request the map, change it in place, request it again
                J.append(dict(harness=('c02', 'h_rotation_map_history'), params=dict(N=N, how=how), timeout_s=300, cost=10))
        if N in (2, 3):
            for form in LAYOUTS[1:]:
                for m in (None, [True] + [False] * (N - 1), [False] * (N - 1) + [True]) + (([True, False, True],) if N == 3 else ()):
                    if N == 3 and m is None:
                        continue
                    J.append(dict(harness=('c03', 'h_definition_views'), params=dict(N=N, mask=m, form=form)))
        if N <= 3:
            for how in ('self', 'slice_head', 'slice_tail', 'row'):
                J.append(dict(harness=('c03', 'h_alias'), params=dict(N=N, how=how)))
    for N in (1, 2):
        J.append(dict(harness=('c03', 'h_homomorphism'), params=dict(N=N), timeout_s=300, cost=50))
    if tier == 'thorough':
        J.append(dict(harness=('c03', 'h_homomorphism'), params=dict(N=3), timeout_s=300, wall_s=1500, cost=100, claimed=False,
                      label='stretch:h_homomorphism{"N": 3}'))
    return J
