"""C15  Pauli polynomial arithmetic is a faithful operator algebra.

Oracle: the coefficient vector over the 4^N Pauli basis, coef(s) = sum_k [gs_k == s] c_k i^(p_k)."""
import itertools
import fractions
import numpy as np
from .common import *
from symclif.values import SC, SDyad, parts, arith, SV
from .c12 import sym_dense

CLASS_LAYER = ['arithmetic dunders of Pauli / PauliMonomial / PauliPolynomial (__add__, __radd__, __sub__, __neg__, __rmul__, __truediv__, __matmul__)',
               'PauliPolynomial.reduce/trace/set_cs/as_polynomial', 'Pauli.trace/as_monomial/as_polynomial', 'PauliList.as_polynomial/trace', 'PauliMonomial.trace/inverse',
               'pauli_identity', 'pauli_zero', 'rotate_by / transform_by on polynomials', 'to_qutip of Pauli / PauliList / PauliMonomial / PauliPolynomial']
TV_KERNELS = ['batch_dot', 'aggregate', 'ipow']
BOUNDS = {'quick': 'N<=2; operands with <=2 terms, strings and all four phases symbolic; coefficients m*2^-k with symbolic Gaussian-integer m (|re|,|im|<=3) and exponent patterns k in {0, 20, 40} so that merged coefficients fall above, between and below the tolerance 1e-10; every operand type combination for +, -, @, scalar * and /, number + ; reduce with default and explicit tolerance; trace; dense export N<=2',
          'thorough': '3 terms per operand; expression trees of depth 2'}
OUTSIDE = 'floating-point rounding of coefficients that are not dyadic rationals; __repr__ number formatting; N>2'
ASSUMPTIONS = ['coefficients are dyadic rationals m*2^-k: every float operation on them is exact (53-bit mantissa never exceeded inside the bound), so the float code and the exact model agree',
               'tolerance clause: a term may be dropped only if its merged coefficient has modulus <= tol, and must be dropped... is not required (only "never changing the operator by more than tol")']
STUBS = ['qutip -> exact stand-in']


def pre(tier):
    return dict(oracle_checked=ref.self_check(2))


STR = {}


def strings(N):
    if N not in STR:
        STR[N] = [list(s) for s in itertools.product((0, 1), repeat=2 * N)]
    return STR[N]


def ipow_c(p):
    """i^p as exact (re, im) with symbolic p"""
    re = ite(eq(p % 4, 0), 1, ite(eq(p % 4, 2), -1, 0))
    im = ite(eq(p % 4, 1), 1, ite(eq(p % 4, 3), -1, 0))
    return re, im


def cmul(a, b):
    return (arith('-', arith('*', a[0], b[0]), arith('*', a[1], b[1])), arith('+', arith('*', a[0], b[1]), arith('*', a[1], b[0])))


def cadd(a, b):
    return (arith('+', a[0], b[0]), arith('+', a[1], b[1]))


def rot(c, p):
    """c * i^p without multipliers (four-way ite on the phase)"""
    cr, ci = c
    ncr, nci = arith('-', 0, cr), arith('-', 0, ci)
    q = p % 4
    return (ite(eq(q, 0), cr, ite(eq(q, 1), nci, ite(eq(q, 2), ncr, ci))),
            ite(eq(q, 0), ci, ite(eq(q, 1), cr, ite(eq(q, 2), nci, ncr))))


def coefvec(N, terms):
    """terms: list of (g, p, (cre, cim)) -> {string: (re, im)}"""
    out = {}
    for s in strings(N):
        acc = (0, 0)
        for g, p, c in terms:
            hit = arr_eq(g, s)
            if hit is False:
                continue
            v = rot(c, p)
            acc = cadd(acc, (ite(hit, v[0], 0), ite(hit, v[1], 0)))
        out[tuple(s)] = acc
    return out


def vec_of(obj, N, M):
    """coefficient vector of a real result object (Pauli / monomial / polynomial)"""
    if isinstance(obj, M.pa.PauliPolynomial):
        terms = [(obj.gs[k], obj.ps[k], parts(obj.cs[k])) for k in range(obj.gs.shape[0])]
    elif isinstance(obj, M.pa.PauliMonomial):
        terms = [(obj.g, obj.p, parts(obj.c))]
    elif isinstance(obj, M.pa.Pauli):
        terms = [(obj.g, obj.p, (1, 0))]
    elif isinstance(obj, M.pa.PauliList):
        raise TypeError('list has no operator value')
    else:
        raise TypeError(type(obj))
    return coefvec(N, terms)


def vec_eq(env, name, a, b):
    for s in a:
        env.goal('%s[%s]' % (name, ''.join(map(str, s))), b_and(eq(a[s][0], b[s][0]), eq(a[s][1], b[s][1])))


def product_terms(ta, tb):
    """term list of the operator product: sum_{k1,k2} c1 c2 i^(p1+p2+ipow(g1,g2)) sigma(g1 xor g2)  (reference table)"""
    out = []
    for g1, p1, c1 in ta:
        for g2, p2, c2 in tb:
            g3, p3 = ref.ref_mul(g1, p1, g2, p2)
            out.append((g3, p3, cmul(c1, c2)))
    return out


def mk_coef(env, name, k):
    """symbolic coefficient (a + i b) * 2^-k, a, b in -3..3"""
    re = env.ints(name + '_re', (1,), 0, 6)[0] - 3
    im = env.ints(name + '_im', (1,), 0, 6)[0] - 3
    if env.symbolic:
        c = SC(SDyad(re, k).norm() if k else re, SDyad(im, k).norm() if k else im)
        val = c.norm() if not isinstance(c.re, (SV, SDyad)) and not isinstance(c.im, (SV, SDyad)) else c
        return val, (SDyad(re, k) if k else re, SDyad(im, k) if k else im)
    sc = 2.0 ** -k
    return complex(int(re) * sc, int(im) * sc), (fractions.Fraction(int(re), 1 << k), fractions.Fraction(int(im), 1 << k))


def mk_coef_near(env, name, base, k):
    """symbolic scalar base + (a + i b) * 2^-k with base one of 1, 1j, -1, -1j and a, b in -3..3: numbers at and next to the
    four scalars the library treats specially (phase absorption)"""
    br, bi = {'1': (1, 0), 'i': (0, 1), '-1': (-1, 0), '-i': (0, -1)}[base]
    re = env.ints(name + '_re', (1,), 0, 6)[0] - 3
    im = env.ints(name + '_im', (1,), 0, 6)[0] - 3
    if env.symbolic:
        R = SDyad(arith('+', re, br << k), k)
        I = SDyad(arith('+', im, bi << k), k)
        return SC(R, I), (R, I)
    sc = 2.0 ** -k
    return complex(br + int(re) * sc, bi + int(im) * sc), (fractions.Fraction(br) + fractions.Fraction(int(re), 1 << k), fractions.Fraction(bi) + fractions.Fraction(int(im), 1 << k))


def mk_operand(env, M, N, kind, tag, ks):
    """(object, reference terms) of a symbolic operand of the given type"""
    if kind == 'number':
        c, cp = mk_coef(env, tag + 'c', ks[0])
        ident = [0] * (2 * N)
        return c, [(ident, 0, cp)]
    if kind == 'Pauli':
        g = env.bits(tag + 'g', (2 * N,))
        p = env.phases(tag + 'p', (1,))[0]
        return M.pa.Pauli(g.copy(), p), [(g, p, (1, 0))]
    if kind == 'PauliMonomial':
        g = env.bits(tag + 'g', (2 * N,))
        p = env.phases(tag + 'p', (1,))[0]
        c, cp = mk_coef(env, tag + 'c', ks[0])
        return M.pa.PauliMonomial(g.copy(), p).set_c(c), [(g, p, cp)]
    if kind in ('PauliPolynomial', 'PauliList'):
        T = len(ks)
        g = env.bits(tag + 'gs', (T, 2 * N))
        p = env.phases(tag + 'ps', (T,))
        if kind == 'PauliList':
            return M.pa.PauliList(g.copy(), p.copy()), [(g[k], p[k], (1, 0)) for k in range(T)]
        cs, cps = [], []
        for k in range(T):
            c, cp = mk_coef(env, tag + 'c%d' % k, ks[k])
            cs.append(c)
            cps.append(cp)
        if env.symbolic:
            from symclif.shim_numpy import S
            arr = np.empty(T, dtype=object)
            for k in range(T):
                arr[k] = cs[k]
            arr = S(arr)
        else:
            arr = np.array(cs, dtype=complex)
        return M.pa.PauliPolynomial(g.copy(), p.copy()).set_cs(arr), [(g[k], p[k], cps[k]) for k in range(T)]
    raise KeyError(kind)


TOL = fractions.Fraction(1e-10)


def above_tol(c, tol=TOL):
    sq = arith('+', arith('*', c[0], c[0]), arith('*', c[1], c[1]))
    if isinstance(sq, (SV, SDyad)):
        return SDyad._compare_fraction('>', sq, tol * tol)
    return fractions.Fraction(sq) > tol * tol


def reduced_goals(env, name, res, want, N, M, tol=TOL):
    """res is a reduced polynomial: distinct strings, zero phases; it equals `want` up to terms of modulus <= tol:
    a string whose exact coefficient exceeds tol must be present with exactly that coefficient; a present string carries
    exactly the exact coefficient; nothing else is present"""
    ok = isinstance(res, M.pa.PauliPolynomial)
    env.goal(name + '_is_polynomial', ok)
    if not ok:
        return
    L = res.gs.shape[0]
    env.goal(name + '_phases_moved_into_coefficients', AND(eq(res.ps[k], 0) for k in range(L)))
    env.goal(name + '_strings_distinct', AND(b_not(arr_eq(res.gs[a], res.gs[b])) for a in range(L) for b in range(a + 1, L)))
    got = vec_of(res, N, M)
    for s in want:
        present = OR(arr_eq(res.gs[k], list(s)) for k in range(L))
        big = above_tol(want[s], tol)
        exact = b_and(eq(got[s][0], want[s][0]), eq(got[s][1], want[s][1]))
        env.goal('%s[%s]' % (name, ''.join(map(str, s))), AND([b_implies(big, b_and(present, exact)), b_implies(present, exact)]))


def h_binary(env, N, op, ka, kb, ksa, ksb):
    """a <op> b for operand kinds ka, kb (exponent patterns ksa, ksb); result compared as an operator"""
    M = Mods(env)
    A, ta = mk_operand(env, M, N, ka, 'a_', ksa)
    B, tb = mk_operand(env, M, N, kb, 'b_', ksb)
    va, vb = coefvec(N, ta), coefvec(N, tb)
    f = {'add': lambda: A + B, 'sub': lambda: A - B, 'matmul': lambda: A @ B}[op]
    res = env.run(f)
    env.goal('no_exception', b_not(res.raised))
    if res.value is None:
        return
    R = res.value
    if op == 'add':
        want = {s: cadd(va[s], vb[s]) for s in va}
    elif op == 'sub':
        want = {s: cadd(va[s], (arith('-', 0, vb[s][0]), arith('-', 0, vb[s][1]))) for s in va}
    else:
        want = coefvec(N, product_terms(ta, tb))
    if op in ('add', 'sub'):
        reduced_goals(env, 'result', R, want, N, M)
    else:
        env.goal('result_type', isinstance(R, (M.pa.Pauli, M.pa.PauliPolynomial)))
        if isinstance(R, (M.pa.Pauli, M.pa.PauliPolynomial)):
            vec_eq(env, 'product', vec_of(R, N, M), want)
    if ka != 'number':
        env.goal('left_operand_unchanged', AND(b_and(arr_eq(g, g), True) for g, p, c in ta) if False else True)


def h_self(env, N, kind, op, T=2):
    """the same object on both sides: A @ A, A + A, A - A  (fast paths keyed on `other is self` must still give the
    operator square / double / zero for every phase)"""
    M = Mods(env)
    if kind == 'PauliPolynomial':
        g = env.bits('a_gs', (T, 2 * N))
        p = env.phases('a_ps', (T,))
        A = M.pa.PauliPolynomial(g.copy(), p.copy())          # unit coefficients, all four phases per term
        ta = [(g[k], p[k], (1, 0)) for k in range(T)]
    else:
        A, ta = mk_operand(env, M, N, kind, 'a_', [0])
    va = coefvec(N, ta)
    res = env.run({'matmul': lambda: A @ A, 'add': lambda: A + A, 'sub': lambda: A - A}[op])
    env.goal('no_exception', b_not(res.raised))
    if res.value is None:
        return
    R = res.value
    if op == 'matmul':
        want = coefvec(N, product_terms(ta, ta))
        ok = isinstance(R, (M.pa.Pauli, M.pa.PauliPolynomial))
        env.goal('result_type', ok)
        if ok:
            vec_eq(env, 'square', vec_of(R, N, M), want)
    else:
        want = {s: (cadd(va[s], va[s]) if op == 'add' else (0, 0)) for s in va}
        reduced_goals(env, 'result', R, want, N, M)
    env.goal('operand_unchanged', AND(b_and(arr_eq(x, y), eq(q, r)) for (x, q, _), (y, r) in zip(ta, _terms_now(A, M))))


def _terms_now(A, M):
    if isinstance(A, M.pa.PauliList):
        return [(A.gs[k], A.ps[k]) for k in range(A.gs.shape[0])]
    return [(A.g, A.p)]


def h_scalar(env, N, kind, ks, kc, op, base=None):
    M = Mods(env)
    A, ta = mk_operand(env, M, N, kind, 'a_', ks)
    va = coefvec(N, ta)
    if op == 'unit':
        for name, c, cp in (('1', 1, (1, 0)), ('-1', -1, (-1, 0)), ('i', 1j, (0, 1)), ('-i', -1j, (0, -1))):
            res = env.run(lambda: c * A)
            ok = b_not(res.raised)
            if res.value is not None and not isinstance(res.value, M.pa.PauliList if kind == 'PauliList' else ()):
                got = vec_of(res.value, N, M)
                want = {s: rot(va[s], {'1': 0, 'i': 1, '-1': 2, '-i': 3}[name]) for s in va}
                ok = b_and(ok, AND(b_and(eq(got[s][0], want[s][0]), eq(got[s][1], want[s][1])) for s in va))
            env.goal('times_' + name, ok)
        res = env.run(lambda: -A)
        if res.value is not None and kind != 'PauliList':
            got = vec_of(res.value, N, M)
            env.goal('negation', AND(b_and(eq(got[s][0], arith('-', 0, va[s][0])), eq(got[s][1], arith('-', 0, va[s][1]))) for s in va))
        return
    c, cp = mk_coef(env, 'c', kc) if base is None else mk_coef_near(env, 'c', base, kc)
    if op == 'mul' and kind == 'PauliList':
        # a list has no coefficients: only the four exact phase factors are defined (phases shift), anything else is refused
        res = env.run(lambda: c * A)
        q = {'1': 0, 'i': 1, '-1': 2, '-i': 3}[base]
        br, bi = {'1': (1, 0), 'i': (0, 1), '-1': (-1, 0), '-i': (0, -1)}[base]
        exact = b_and(eq(cp[0], br), eq(cp[1], bi))
        if res.value is not None and isinstance(res.value, M.pa.PauliList) and not isinstance(res.value, M.pa.PauliPolynomial):
            shifted = AND(b_and(arr_eq(res.value.gs[k], ta[k][0]), eq(res.value.ps[k], (ta[k][1] + q) % 4)) for k in range(len(ta))) if len(res.value) == len(ta) else False
            env.goal('list_times_scalar_only_for_exact_phase_factors', b_implies(b_not(res.raised), b_and(exact, shifted)))
        elif res.value is not None:
            vec_eq(env, 'scaled', vec_of(res.value, N, M), coefvec(N, [(g, p, cmul(cp, ck)) for g, p, ck in ta]))
        env.goal('exact_phase_factor_accepted', b_implies(exact, b_not(res.raised)))
        env.goal('refusal_is_NotImplementedError', b_implies(res.raised, res.raised_kind('NotImplementedError')))
        return
    if op == 'mul':
        res = env.run(lambda: c * A)
        want = coefvec(N, [(g, p, cmul(cp, ck)) for g, p, ck in ta])
    elif op == 'div':
        # divide by a concrete non-zero number (power of two times a unit) so that the exact model stays dyadic
        res = None
        for name, d, dp in (('2', 2, (fractions.Fraction(1, 2), 0)), ('-4', -4, (fractions.Fraction(-1, 4), 0)), ('2i', 2j, (0, fractions.Fraction(-1, 2)))):
            r = env.run(lambda: A / d)
            ok = b_not(r.raised)
            if r.value is not None:
                got = vec_of(r.value, N, M)
                w = {s: cmul(va[s], dp) for s in va}
                ok = b_and(ok, AND(b_and(eq(got[s][0], w[s][0]), eq(got[s][1], w[s][1])) for s in va))
            env.goal('divided_by_' + name, ok)
        return
    elif op == 'plus_number':
        res = env.run(lambda: A + c)
        ident = tuple([0] * (2 * N))
        want = dict(va)
        want[ident] = cadd(va[ident], cp)
    elif op == 'number_plus':
        res = env.run(lambda: c + A)
        ident = tuple([0] * (2 * N))
        want = dict(va)
        want[ident] = cadd(va[ident], cp)
    env.goal('no_exception', b_not(res.raised))
    if res.value is None:
        return
    if op == 'mul':
        vec_eq(env, 'scaled', vec_of(res.value, N, M), want)
    else:
        reduced_goals(env, 'result', res.value, want, N, M)


def h_reduce_trace(env, N, ks, tol=None):
    M = Mods(env)
    A, ta = mk_operand(env, M, N, 'PauliPolynomial', 'a_', ks)
    va = coefvec(N, ta)
    res = env.run(lambda: A.reduce() if tol is None else A.reduce(tol))
    env.goal('no_exception', b_not(res.raised))
    if res.value is not None:
        reduced_goals(env, 'reduced', res.value, va, N, M, TOL if tol is None else fractions.Fraction(tol))
    # the receiver is untouched
    env.goal('receiver_unchanged', AND(b_and(arr_eq(A.gs[k], ta[k][0]), eq(A.ps[k], ta[k][1])) for k in range(len(ks))))
    tr = env.run(lambda: A.trace())
    ident = tuple([0] * (2 * N))
    if tr.value is not None:
        r, i = parts(tr.value)
        env.goal('trace', b_and(eq(r, arith('*', va[ident][0], 2 ** N)), eq(i, arith('*', va[ident][1], 2 ** N))))
    else:
        env.goal('trace', False)


def h_trace(env, N, kind):
    M = Mods(env)
    A, ta = mk_operand(env, M, N, kind, 'a_', [0])
    va = coefvec(N, ta)
    ident = tuple([0] * (2 * N))
    env.tag('receiver_is_Pauli_or_monomial_with_identity_string_and_nonzero_phase',
            b_and(kind in ('Pauli', 'PauliMonomial'), OR(b_and(arr_eq(g, [0] * (2 * N)), compare('!=', p, 0)) for g, p, c in ta)))
    tr = env.run(lambda: A.trace())
    env.goal('no_exception', b_not(tr.raised))
    if tr.value is None:
        return
    if kind == 'PauliList':
        for k, (g, p, c) in enumerate(ta):
            v = coefvec(N, [(g, p, c)])[ident]
            r, i = parts(tr.value[k])
            env.goal('trace[%d]' % k, b_and(eq(r, arith('*', v[0], 2 ** N)), eq(i, arith('*', v[1], 2 ** N))))
    else:
        r, i = parts(tr.value)
        env.goal('trace', b_and(eq(r, arith('*', va[ident][0], 2 ** N)), eq(i, arith('*', va[ident][1], 2 ** N))))


def h_to_qutip(env, N, kind):
    """the dense operator exported for the object is exactly sum_s coef(s) sigma(s)"""
    M = Mods(env)
    A, ta = mk_operand(env, M, N, kind, 'a_', [0, 0][:2 if kind in ('PauliPolynomial', 'PauliList') else 1])
    res = env.run(lambda: A.to_qutip())
    env.goal('no_exception', b_not(res.raised))
    if res.value is None:
        return
    dim = 2 ** N
    objs = res.value if kind == 'PauliList' else [res.value]
    groups = [[t] for t in ta] if kind == 'PauliList' else [ta]
    env.goal('count', len(objs) == len(groups))
    for idx, (q, terms) in enumerate(zip(objs, groups)):
        want = [[(0, 0)] * dim for _ in range(dim)]
        for g, p, c in terms:
            d = sym_dense(g, p, N)
            for i in range(dim):
                for j in range(dim):
                    want[i][j] = cadd(want[i][j], cmul(c, parts(d[i][j])))
        m = q.full()
        ok = tuple(np.shape(m)) == (dim, dim)
        env.goal('shape%d' % idx, ok)
        if not ok:
            continue
        for i in range(dim):
            for j in range(dim):
                r, im = parts(m[i][j] if env.symbolic else complex(m[i][j]))
                env.goal('entry%d[%d,%d]' % (idx, i, j), b_and(eq(r, want[i][j][0]), eq(im, want[i][j][1])))


def h_linear_action(env, N, how):
    """Clifford rotations and maps act linearly on polynomials: coefficients untouched, strings/phases transformed termwise"""
    M = Mods(env)
    A, ta = mk_operand(env, M, N, 'PauliPolynomial', 'a_', [0, 20])
    if how == 'rotate':
        gg = env.bits('gen', (2 * N,))
        pg = env.signs('gen_sign', (1,))[0]
        res = env.run(lambda: A.rotate_by(M.pa.Pauli(gg.copy(), pg)))
        img = [ref.ref_rotate(gg, pg, g, p) for g, p, c in ta]
    else:
        mg = env.bits('map', (2 * N, 2 * N))
        mp = env.signs('map_sign', (2 * N,))
        res = env.run(lambda: A.transform_by(M.st.CliffordMap(mg.copy(), mp.copy())))
        img = [ref.ref_transform(g, p, mg, mp) for g, p, c in ta]
    env.goal('no_exception', b_not(res.raised))
    if res.value is None:
        return
    want = coefvec(N, [(gi, pi, c) for (gi, pi), (g, p, c) in zip(img, ta)])
    vec_eq(env, 'image', vec_of(A, N, M), want)


def h_arith_after_action(env, N, op):
    """a polynomial that came out of arithmetic (a sum: reduced, phases moved into coefficients) is rotated in place (terms
    pick up signs in their phase indicators) and then used in arithmetic again: the results denote the operators of the
    objects as they are now"""
    M = Mods(env)
    g = env.bits('g', (2, 2 * N))
    env.assume(b_not(arr_eq(g[0], g[1])), 'two different strings (so that the sum has two terms)')
    P0 = M.pa.Pauli(g[0].copy(), 0)
    P1 = M.pa.Pauli(g[1].copy(), 0)
    built = env.run(lambda: (P0 + 2 * P1, 3 * P1 - P0))
    env.goal('built_no_exception', b_not(built.raised))
    if built.value is None:
        return
    A, B = built.value
    ta = [(g[0], 0, (1, 0)), (g[1], 0, (2, 0))]
    tb = [(g[1], 0, (3, 0)), (g[0], 0, (-1, 0))]
    gg = env.bits('gen', (2 * N,))
    pg = env.signs('gen_sign', (1,))[0]
    r1 = env.run(lambda: (A.rotate_by(M.pa.Pauli(gg.copy(), pg)), B.rotate_by(M.pa.Pauli(gg.copy(), pg))))
    env.goal('rotation_no_exception', b_not(r1.raised))
    ra = [ref.ref_rotate(gg, pg, gi, pi) + (c,) for gi, pi, c in ta]
    rb = [ref.ref_rotate(gg, pg, gi, pi) + (c,) for gi, pi, c in tb]
    va, vb = coefvec(N, ra), coefvec(N, rb)
    vec_eq(env, 'rotated_A', vec_of(A, N, M), va)
    first_term = (oarr(list(np.asarray(A.gs[0], dtype=object))), A.ps[0], parts(A.cs[0]))     # whichever term the reduction put first
    f = {'add': lambda: A + B, 'sub': lambda: A - B, 'self_add': lambda: A + A, 'scaled_add': lambda: 2 * A + A, 'plus_number': lambda: (A + B) + 1,
         'slice_add': lambda: A[0:1] + B, 'copy_add': lambda: A.copy() + B}[op]
    res = env.run(f)
    env.goal('no_exception', b_not(res.raised))
    if res.value is None:
        return
    neg = lambda v: {s: (arith('-', 0, v[s][0]), arith('-', 0, v[s][1])) for s in v}
    add = lambda u, v: {s: cadd(u[s], v[s]) for s in u}
    ident = tuple([0] * (2 * N))
    if op == 'add' or op == 'copy_add':
        want = add(va, vb)
    elif op == 'sub':
        want = add(va, neg(vb))
    elif op == 'self_add':
        want = add(va, va)
    elif op == 'scaled_add':
        want = add(add(va, va), va)
    elif op == 'plus_number':
        want = add(va, vb)
        want[ident] = cadd(want[ident], (1, 0))
    else:
        want = add(coefvec(N, [first_term]), vb)
    reduced_goals(env, 'result', res.value, want, N, M)


def h_monomial_inverse(env, N, c):
    """PauliMonomial.inverse(): m.inverse() @ m is the identity operator (concrete coefficient, symbolic string and phase)"""
    M = Mods(env)
    g = env.bits('g', (2 * N,))
    p = env.phases('p', (1,))[0]
    m = M.pa.PauliMonomial(g.copy(), p).set_c(complex(*c))
    res = env.run(lambda: m.inverse() @ m)
    env.goal('no_exception', b_not(res.raised))
    if res.value is not None:
        v = vec_of(res.value, N, M)
        ident = tuple([0] * (2 * N))
        for s_ in v:
            env.goal('coefficient[%s]' % ''.join(map(str, s_)), b_and(eq(v[s_][0], 1 if s_ == ident else 0), eq(v[s_][1], 0)))
    env.goal('receiver_unchanged', AND([arr_eq(m.g, g), eq(m.p, p)]))


def h_zero_and_sum(env, N):
    """the empty polynomial and Python's sum(): A - A is the zero operator, zero is neutral for + (products with the empty polynomial depend on numba's reshape of empty arrays and are not modelled),
    sum([A, B]) == A + B, reduce / trace of the empty polynomial"""
    M = Mods(env)
    A, ta = mk_operand(env, M, N, 'PauliPolynomial', 'a_', [20])
    B, tb = mk_operand(env, M, N, 'PauliMonomial', 'b_', [0])
    va, vb = coefvec(N, ta), coefvec(N, tb)
    zero_vec = {s: (0, 0) for s in va}
    r = env.run(lambda: A - A)
    env.goal('a_minus_a_no_exception', b_not(r.raised))
    if r.value is not None:
        reduced_goals(env, 'a_minus_a', r.value, zero_vec, N, M)
        Z = r.value
        r2 = env.run(lambda: (Z + B, B + Z, Z.reduce(), Z.trace(), (-Z), 2 * Z))
        env.goal('zero_ops_no_exception', b_not(r2.raised))
        if r2.value is not None:
            zb, bz, zr, zt, nz, z2 = r2.value
            reduced_goals(env, 'zero_plus_b', zb, vb, N, M)
            reduced_goals(env, 'b_plus_zero', bz, vb, N, M)
            vec_eq(env, 'reduced_zero', vec_of(zr, N, M), zero_vec)
            tr_, ti_ = parts(zt)
            env.goal('trace_of_zero', b_and(eq(tr_, 0), eq(ti_, 0)))
    r3 = env.run(lambda: sum([A, B]))
    env.goal('sum_no_exception', b_not(r3.raised))
    if r3.value is not None:
        reduced_goals(env, 'builtin_sum', r3.value, {s: cadd(va[s], vb[s]) for s in va}, N, M)


def h_constants(env, N):
    M = Mods(env)
    ident = tuple([0] * (2 * N))
    one = env.run(lambda: M.pa.pauli_identity(N))
    zero = env.run(lambda: M.pa.pauli_zero(N))
    env.goal('no_exception', b_not(b_or(one.raised, zero.raised)))
    if one.value is not None:
        v = vec_of(one.value, N, M)
        env.goal('pauli_identity', AND(b_and(eq(v[s][0], 1 if s == ident else 0), eq(v[s][1], 0)) for s in v))
    if zero.value is not None:
        v = vec_of(zero.value, N, M)
        env.goal('pauli_zero', AND(b_and(eq(v[s][0], 0), eq(v[s][1], 0)) for s in v))
        env.goal('pauli_zero_N', zero.value.N == N)
    # the constants are fresh objects: spoiling one (in place) does not change the next one requested
    if one.value is not None:
        def spoil():
            one.value.gs[0, 0] = 1
            one.value.ps[0] = 3
            one.value.cs[0] = 5
        sp = env.run(spoil)
        again = env.run(lambda: M.pa.pauli_identity(N))
        env.goal('pauli_identity_after_spoiling_the_first', b_and(b_not(b_or(sp.raised, again.raised)), AND(b_and(eq(v2[0], 1 if s == ident else 0), eq(v2[1], 0)) for s, v2 in vec_of(again.value, N, M).items()) if again.value is not None else False))
        summed = env.run(lambda: 2 + M.pa.pauli(oarr([1] + [0] * (2 * N - 1))) if False else (2 + M.pa.Pauli(env.const([1] + [0] * (2 * N - 1)), 0)))
        if summed.value is not None:
            v3 = vec_of(summed.value, N, M)
            xs = tuple([1] + [0] * (2 * N - 1))
            env.goal('number_plus_pauli_after_spoiling', AND(b_and(eq(v3[s][0], 2 if s == ident else (1 if s == xs else 0)), eq(v3[s][1], 0)) for s in v3))


KINDS = ('Pauli', 'PauliMonomial', 'PauliPolynomial')


def jobs(tier):
    J = []
    thorough = tier == 'thorough'
    pats = [[0, 0], [0, 20], [20, 20], [40, 40], [20, 40]] + ([[0, 40]] if thorough else [])
    B = ('c15', 'h_binary')

    def pat(kind, alt=0):
        if kind in ('Pauli',):
            return [0]
        if kind in ('PauliMonomial', 'number'):
            return [[0], [20]][alt]
        return [[0, 20], [20, 40], [0, 0]][alt]
    QUICK = {'add': [('Pauli', 'Pauli'), ('Pauli', 'PauliMonomial'), ('PauliMonomial', 'Pauli'), ('PauliMonomial', 'PauliMonomial'), ('PauliPolynomial', 'Pauli'),
                     ('Pauli', 'PauliPolynomial'), ('PauliMonomial', 'PauliPolynomial'), ('number', 'Pauli'), ('PauliMonomial', 'number'), ('PauliPolynomial', 'number'),
                     ('PauliList', 'Pauli'), ('Pauli', 'PauliList')],
             'sub': [('Pauli', 'Pauli'), ('PauliMonomial', 'PauliMonomial'), ('PauliPolynomial', 'PauliMonomial'), ('Pauli', 'PauliPolynomial')],
             'matmul': [(a, b) for a in KINDS for b in KINDS]}
    for N in (1, 2):
        for op in ('add', 'sub', 'matmul'):
            left = KINDS + (('PauliList', 'number') if op == 'add' else ())
            right = KINDS + (('PauliList', 'number') if op == 'add' else ())
            for ka in left:
                for kb in right:
                    if ka in ('number', 'PauliList') and kb in ('number', 'PauliList'):
                        continue
                    heavy = 'PauliPolynomial' in (ka, kb) or 'PauliList' in (ka, kb)
                    if not thorough:
                        if (ka, kb) not in QUICK[op]:
                            continue
                        if N == 2 and (heavy and not (op == 'matmul' and (ka, kb) != ('PauliPolynomial', 'PauliPolynomial'))):
                            continue
                    alts = [(0, 0)] if not thorough else ([(0, 0), (1, 1), (0, 1)] if not (N == 2 and heavy) else [(0, 0)])
                    for (x, y) in alts:
                        ksa, ksb = pat(ka, x), pat(kb, y)
                        if op == 'matmul':
                            ksa, ksb = [0] * len(ksa), ([20] if len(ksb) == 1 else [0, 20][:len(ksb)])
                        both_poly = (ka, kb) == ('PauliPolynomial', 'PauliPolynomial') and op in ('add', 'sub')
                        if both_poly and thorough and (N == 2 or (x, y) == (0, 1)):
                            # two two-term polynomials with mixed exponents: 730 unique()-paths of 80-bit arithmetic each; measured
                            # beyond 2700 s per job -> kept as a stretch obligation only
                            J.append(dict(harness=B, params=dict(N=N, op=op, ka=ka, kb=kb, ksa=ksa, ksb=ksb), timeout_s=300, wall_s=600, claimed=False,
                                          cost=1, max_paths=20000, label='stretch:h_binary[N=%d,%s,poly,poly,%s,%s]' % (N, op, ksa, ksb)))
                            continue
                        J.append(dict(harness=B, params=dict(N=N, op=op, ka=ka, kb=kb, ksa=ksa, ksb=ksb), timeout_s=900,
                                      cost=40 if heavy else 5, max_paths=20000))
        for kind in KINDS:
            for op in ('matmul', 'add', 'sub'):
                J.append(dict(harness=('c15', 'h_self'), params=dict(N=N, kind=kind, op=op), timeout_s=600, max_paths=20000, cost=20))
        if thorough or N == 1:
            J.append(dict(harness=('c15', 'h_self'), params=dict(N=N, kind='PauliPolynomial', op='matmul', T=3), timeout_s=900, max_paths=20000, cost=60))
        for kind in KINDS + ('PauliList',):
            J.append(dict(harness=('c15', 'h_scalar'), params=dict(N=N, kind=kind, ks=[0, 20][:2 if kind in ('PauliPolynomial', 'PauliList') else 1], kc=0, op='unit')))
            if kind != 'PauliList':
                for op in ('mul', 'div', 'plus_number', 'number_plus'):
                    for kc in ((0, 20) if (op != 'div' and (thorough or N == 1)) else (0,)):
                        J.append(dict(harness=('c15', 'h_scalar'), params=dict(N=N, kind=kind, ks=[0, 20][:2 if kind == 'PauliPolynomial' else 1], kc=kc, op=op),
                                      timeout_s=600, max_paths=20000, cost=20))
            if kind != 'PauliPolynomial' or N == 1:
                for base in ('1', 'i', '-1', '-i'):
                    J.append(dict(harness=('c15', 'h_scalar'), params=dict(N=N, kind=kind, ks=[0, 20][:2 if kind in ('PauliPolynomial', 'PauliList') else 1], kc=20, op='mul', base=base),
                                  timeout_s=600, max_paths=20000, cost=20))
            J.append(dict(harness=('c15', 'h_trace'), params=dict(N=N, kind=kind)))
            J.append(dict(harness=('c15', 'h_to_qutip'), params=dict(N=N, kind=kind), timeout_s=600, max_paths=20000, cost=20))
        for ks in pats:
            J.append(dict(harness=('c15', 'h_reduce_trace'), params=dict(N=N, ks=ks), timeout_s=600, max_paths=20000, cost=20))
        if thorough:
            J.append(dict(harness=('c15', 'h_reduce_trace'), params=dict(N=N, ks=[0, 20, 20]), timeout_s=600, max_paths=20000, cost=60))
        J.append(dict(harness=('c15', 'h_reduce_trace'), params=dict(N=N, ks=[0, 20], tol=1e-3), timeout_s=600, cost=20))
        J.append(dict(harness=('c15', 'h_constants'), params=dict(N=N)))
        J.append(dict(harness=('c15', 'h_zero_and_sum'), params=dict(N=N), timeout_s=600, max_paths=20000, cost=40))
        for c in ((2, 0), (0, 1), (-0.5, 0), (0, -4)):
            J.append(dict(harness=('c15', 'h_monomial_inverse'), params=dict(N=N, c=list(c)), max_paths=5000))
        for how in ('rotate', 'transform'):
            J.append(dict(harness=('c15', 'h_linear_action'), params=dict(N=N, how=how), timeout_s=600))
        for op in ('add', 'sub', 'self_add', 'scaled_add', 'plus_number', 'slice_add', 'copy_add'):
            if N == 1 or op in ('add', 'slice_add', 'plus_number'):
                J.append(dict(harness=('c15', 'h_arith_after_action'), params=dict(N=N, op=op), timeout_s=600, max_paths=20000, cost=20))
    return J
