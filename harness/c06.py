"""C06  Measurement follows the Born rule and the projection postulate."""
import itertools
from .common import *
from .tableau import h_measure

CLASS_LAYER = ['StabilizerState.measure', 'StabilizerState.__init__', 'StabilizerState.set_r', 'PauliList.__init__']
TV_KERNELS = ['stabilizer_measure', 'acq', 'ipow']
BOUNDS = {'quick': 'arbitrary Inv tableau, every rank r, N<=2, lists of L<=2 commuting signed observables, every coin value',
          'thorough': 'plus N=3, L=1 (64-way case split on the observable string; tableau, signs, coins symbolic)'}
OUTSIDE = 'N>=3 with L>=2 observables; fairness/independence of the RNG coins (assumption); non-Hermitian or non-commuting observable lists'
ASSUMPTIONS = ['pre-state satisfies Inv (inductive hypothesis, discharged for every operation by C05)',
               'observables Hermitian (phases even) and mutually commuting (documented)',
               'coins are fair and independent bits: "probability one half" is reported as "outcome is an injective function of one fresh coin"',
               'float scalars log2prob are dyadic rationals (exact model)']
STUBS = ['numpy.random.randint -> fresh solver variable per call, in draw order']


def pre(tier):
    return dict(oracle_checked=ref.self_check(2))


def jobs(tier):
    J = []
    for N in (1, 2):
        for r in range(N + 1):
            for L in (0, 1, 2):
                J.append(dict(harness=('tableau', 'h_measure'), params=dict(N=N, r=r, L=L, goals='born'), timeout_s=300,
                              cost=10 * N * L))
    for N in (1, 2):
        for r in range(N + 1):
            J.append(dict(harness=('tableau', 'h_measure'), params=dict(N=N, r=r, L=N, goals='born', dtype='uint8'), timeout_s=300, cost=10 * N * N))
    for N in (1, 2):
        for r in range(N + 1):
            for ro in range(N):
                if N == 2 and tier == 'quick' and ro == 0 and r == 0:
                    pass
                J.append(dict(harness=('tableau', 'h_measure'), params=dict(N=N, r=r, L=N - ro, goals='born', obs_state_rank=ro, repeat=(N == 1 or ro == 1)), timeout_s=600,
                              cost=40 * N, label='h_measure[N=%d,r=%d,observables=active stabilizers of a rank-%d state]' % (N, r, ro)))
    for N in (1, 2):
        for r in range(N + 1):
            for form in ('state', 'view', 'copy', 'copy_of_state'):
                J.append(dict(harness=('tableau', 'h_measure_self'), params=dict(N=N, r=r, form=form), timeout_s=300, cost=10))
    if tier == 'quick':
        # three qubits: determined observables that are products of three generators need N - r >= 3 (all 64 strings x 4 ranks in the thorough tier)
        for fix, r in (((0, 1, 1, 1, 0, 1), 0), ((1, 0, 1, 1, 0, 1), 0), ((1, 1, 1, 1, 1, 1), 0), ((0, 1, 0, 0, 0, 1), 0), ((0, 1, 1, 1, 0, 1), 1), ((1, 1, 0, 1, 1, 0), 2)):
            J.append(dict(harness=('tableau', 'h_measure'), params=dict(N=3, r=r, L=1, fix=[list(fix)], goals='born', repeat=False),
                          timeout_s=300, cost=30, label='split64:h_measure[N=3,r=%d,obs=%s]' % (r, ''.join(map(str, fix)))))
    if tier == 'thorough':
        for form in ('state', 'view'):
            for r in range(4):
                J.append(dict(harness=('tableau', 'h_measure_self'), params=dict(N=3, r=r, form=form), timeout_s=600, cost=60))
        for fix in itertools.product((0, 1), repeat=6):
            for r in range(4):
                J.append(dict(harness=('tableau', 'h_measure'), params=dict(N=3, r=r, L=1, fix=[list(fix)], goals='born', repeat=False),
                              timeout_s=300, label='split64:h_measure[N=3,r=%d,obs=%s]' % (r, ''.join(map(str, fix)))))
    return J
