"""C11  Named gates are the textbook Cliffords; C(0..23) enumerates the 1-qubit group."""
import itertools
import numpy as np
from .common import *
from .c03 import embedded_table

CLASS_LAYER = ['H', 'S', 'X', 'Y', 'Z', 'CNOT', 'C', 'CliffordGate.forward/backward/set_forward_map', 'CliffordMap.compose/inverse']
TV_KERNELS = ['pauli_transform', 'pauli_combine', 'ps0', 'z2inv']
BOUNDS = {'quick': 'the finite tables exhaustively (6 named gates, both CNOT orientations and both construction orders, 24 indexed gates, all 576 products, all 24 inverses) x every placement in registers N<=3 x a symbolic input operator with all four phases',
          'thorough': 'registers N<=4'}
OUTSIDE = 'registers beyond the bound'
ASSUMPTIONS = ['oracle: dense textbook unitaries H, S, X, Y, Z, CNOT built with numpy; image of a generator G is U G U^dagger decomposed over Pauli strings numerically at start-up',
               'the gate acts on a register as the homomorphic extension of its table embedded among identity wires (C03)']

_H = np.array([[1, 1], [1, -1]], dtype=complex) / np.sqrt(2)
_S = np.array([[1, 0], [0, 1j]], dtype=complex)
_X = ref.X2
_Z = ref.Z2
_Y = 1j * _X @ _Z
_CNOT01 = np.array([[1, 0, 0, 0], [0, 1, 0, 0], [0, 0, 0, 1], [0, 0, 1, 0]], dtype=complex)   # control = first (most significant) qubit
_SWAP = np.array([[1, 0, 0, 0], [0, 0, 1, 0], [0, 1, 0, 0], [0, 0, 0, 1]], dtype=complex)
U = {'H': _H, 'S': _S, 'X': _X, 'Y': _Y, 'Z': _Z, 'CNOT_lt': _CNOT01, 'CNOT_gt': _SWAP @ _CNOT01 @ _SWAP}


def decompose(Mx, n):
    for g in itertools.product((0, 1), repeat=2 * n):
        D = ref.dense(g)
        for p in range(4):
            if np.allclose(Mx, (1j) ** p * D):
                return list(g), p
    raise ValueError('not a Pauli operator')


def oracle_table(name, n):
    Um = U[name]
    g, p = [], []
    for k in range(2 * n):
        unit = [1 if i == k else 0 for i in range(2 * n)]
        gi, pi = decompose(Um @ ref.dense(unit) @ Um.conj().T, n)
        g.append(gi)
        p.append(pi)
    return g, p


def pre(tier):
    return dict(oracle_checked=ref.self_check(2), info={'tables': {k: oracle_table(k, 1 if len(v) == 2 else 2) for k, v in U.items()}})


def _check_gate_on_register(env, M, gate, table, N, qubits, tag):
    """gate.forward(P) for symbolic P equals the reference extension of the oracle table placed on the gate's qubits
    (ascending mask order), other qubits untouched; backward undoes it"""
    mask = [i in qubits for i in range(N)]
    tg, tp = embedded_table(oarr(table[0]), oarr(table[1]), mask, N)
    gs = env.bits(tag + 'in', (1, 2 * N))
    ps = env.phases(tag + 'in_ps', (1,))
    obj = M.pa.PauliList(gs.copy(), ps.copy())
    res = env.run(lambda: gate.forward(obj))
    env.goal(tag + 'forward_no_exception', b_not(res.raised))
    if res.value is None:
        return
    ge, pe = ref.ref_transform(gs[0], ps[0], tg, tp)
    env.goal(tag + 'forward_string', arr_eq(obj.gs[0], ge))
    env.goal(tag + 'forward_phase', eq(obj.ps[0], pe))
    res2 = env.run(lambda: gate.backward(obj))
    env.goal(tag + 'backward_no_exception', b_not(res2.raised))
    if res2.value is not None:
        env.goal(tag + 'backward_restores', b_and(arr_eq(obj.gs, gs), arr_eq(obj.ps, ps)))


def h_named(env, N, name, q):
    M = Mods(env)
    res = env.run(lambda: getattr(M.ci, name)(q))
    env.goal('constructed', b_not(res.raised))
    if res.value is None:
        return
    gate = res.value
    tab = oracle_table(name, 1)
    env.goal('table_strings', arr_eq(gate.forward_map.gs, tab[0]))
    env.goal('table_phases', arr_eq(gate.forward_map.ps, tab[1]))
    env.goal('qubits', tuple(gate.qubits) == (q,))
    _check_gate_on_register(env, M, gate, tab, N, [q], '')
    bad = env.run(lambda: getattr(M.ci, name)(0, 1))
    env.goal('two_qubits_rejected', bad.raised_kind('ValueError'))
    bad0 = env.run(lambda: getattr(M.ci, name)())
    env.goal('zero_qubits_rejected', bad0.raised_kind('ValueError'))


def h_cnot(env, N, pairs):
    """CNOT(c,t) for each (c,t) in pairs, constructed in this order within one process (history)"""
    M = Mods(env)
    for k, (c, t) in enumerate(pairs):
        tag = 'cnot%d(%d,%d):' % (k, c, t)
        res = env.run(lambda: M.ci.CNOT(c, t))
        env.goal(tag + 'constructed', b_not(res.raised))
        if res.value is None:
            continue
        gate = res.value
        # the mask is order-blind: the table acts on (min, max); oracle with control on the first / second slot
        tab = oracle_table('CNOT_lt' if c < t else 'CNOT_gt', 2)
        env.goal(tag + 'table_strings', arr_eq(gate.forward_map.gs, tab[0]))
        env.goal(tag + 'table_phases', arr_eq(gate.forward_map.ps, tab[1]))
        _check_gate_on_register(env, M, gate, tab, N, [c, t], tag)
        # the textbook statement, directly: X_c -> X_c X_t, Z_t -> Z_c Z_t, Z_c -> Z_c, X_t -> X_t
        for (src, dst) in (({c: 1}, {c: 1, t: 1}), ({t: 3}, {c: 3, t: 3}), ({c: 3}, {c: 3}), ({t: 1}, {t: 1})):
            P = M.pa.pauli(src, N).as_list()
            r = env.run(lambda: gate.forward(P))
            want = M.pa.pauli(dst, N)
            env.goal(tag + 'textbook_%s' % sorted(src.items()), b_and(b_not(r.raised), b_and(arr_eq(P.gs[0], want.g), eq(P.ps[0], 0))))
    bad = env.run(lambda: M.ci.CNOT(0))
    env.goal('one_qubit_rejected', bad.raised_kind('ValueError'))
    bad3 = env.run(lambda: M.ci.CNOT(0, 1, 2))
    env.goal('three_qubits_rejected', bad3.raised_kind('ValueError'))


def h_indexed(env, N):
    """the 24 C(k): valid, pairwise different, closed under composition and inversion; invalid arguments rejected"""
    M = Mods(env)
    res = env.run(lambda: [M.ci.C(k, 0) for k in range(24)])
    env.goal('constructed', b_not(res.raised))
    if res.value is None:
        return
    gates = res.value
    tabs = [(np.asarray(g.forward_map.gs, dtype=object), np.asarray(g.forward_map.ps, dtype=object)) for g in gates]
    key = lambda t: (tuple(int(x) for x in t[0].reshape(-1)), tuple(int(x) for x in t[1].reshape(-1)))
    for k in range(24):
        env.goal('valid[%d]' % k, ref.valid_map(tabs[k][0], tabs[k][1]))
    keys = [key(t) for t in tabs]
    env.goal('pairwise_different', len(set(keys)) == 24)
    # a separating operator for every pair: symbolic P on which the two gates differ must exist (sat witness) --
    # equivalently the tables differ; closure is decided on a symbolic operand
    g = env.bits('g', (1, 2))
    p = env.phases('p', (1,))
    idx = {kk: i for i, kk in enumerate(keys)}
    for a in range(24):
        for b in range(24):
            comp = env.run(lambda: gates[a].forward_map.compose(gates[b].forward_map))
            if comp.value is None:
                env.goal('compose[%d,%d]' % (a, b), False)
                continue
            kk = key((np.asarray(comp.value.gs, dtype=object), np.asarray(comp.value.ps, dtype=object)))
            env.goal('closed[%d,%d]' % (a, b), kk in idx)
            if kk in idx and (a * 24 + b) % 7 == 0:
                # a then b on a symbolic operand equals the single gate C(k)
                o1 = M.pa.PauliList(g.copy(), p.copy())
                o2 = M.pa.PauliList(g.copy(), p.copy())
                r = env.run(lambda: (gates[b].forward(gates[a].forward(o1)), M.ci.C(idx[kk], 0).forward(o2)))
                env.goal('product_acts_as_C[%d,%d]' % (a, b), b_and(b_not(r.raised), b_and(arr_eq(o1.gs, o2.gs), arr_eq(o1.ps, o2.ps))))
        inv = env.run(lambda: gates[a].forward_map.inverse())
        ok = inv.value is not None and key((np.asarray(inv.value.gs, dtype=object), np.asarray(inv.value.ps, dtype=object))) in idx
        env.goal('inverse_closed[%d]' % a, ok)
    for badk in (24, -1, 100):
        bad = env.run(lambda: M.ci.C(badk, 0))
        env.goal('index_%d_rejected' % badk, bad.raised_kind('ValueError'))
    bad = env.run(lambda: M.ci.C(3, 0, 1))
    env.goal('two_qubits_rejected', bad.raised_kind('ValueError'))
    bad = env.run(lambda: M.ci.C(3))
    env.goal('zero_qubits_rejected', bad.raised_kind('ValueError'))


def h_indexed_on_register(env, N, k, q):
    M = Mods(env)
    res = env.run(lambda: M.ci.C(k, q))
    env.goal('constructed', b_not(res.raised))
    if res.value is None:
        return
    gate = res.value
    tab = ([[int(x) for x in row] for row in np.asarray(gate.forward_map.gs)], [int(x) for x in np.asarray(gate.forward_map.ps)])
    _check_gate_on_register(env, M, gate, tab, N, [q], '')


def h_gate_reuse(env, N, name, qubits, order):
    """one gate object used repeatedly in the given order of calls ('f' forward, 'b' backward, 'c' compile, 'k' replace the gate by its copy; a leading 'n' / 'u' passes the qubits as numpy.int64 / numpy.uint8): every call
    acts as the textbook gate or its inverse (lazy inversion, compilation and caching must not change the gate)"""
    M = Mods(env)
    qs = [np.int64(q) for q in qubits] if order.startswith('n') else ([np.uint8(q) for q in qubits] if order.startswith('u') else list(qubits))
    order = order.lstrip('nu')
    res = env.run(lambda: getattr(M.ci, name)(*qs))
    env.goal('constructed', b_not(res.raised))
    if res.value is None:
        return
    gate = res.value
    if name == 'CNOT':
        tab = oracle_table('CNOT_lt' if qubits[0] < qubits[1] else 'CNOT_gt', 2)
    else:
        tab = oracle_table(name, 1)
    mask = [i in qubits for i in range(N)]
    tg, tp = embedded_table(oarr(tab[0]), oarr(tab[1]), mask, N)
    gs = env.bits('in', (1, 2 * N))
    ps = env.phases('in_ps', (1,))
    cur_g, cur_p = gs[0], ps[0]
    obj = M.pa.PauliList(gs.copy(), ps.copy())
    pending_inverse = []
    for k, step in enumerate(order):
        if step == 'c':
            r = env.run(lambda: gate.compile())
            env.goal('step%d_compile' % k, b_not(r.raised))
            continue
        if step == 'k':
            # continue with a copy of the (used) gate: the copy is the same textbook gate
            r = env.run(lambda: gate.copy())
            env.goal('step%d_copy' % k, b_and(b_not(r.raised), r.value is not None and r.value is not gate))
            if r.value is not None:
                gate = r.value
            continue
        if step == 'f':
            r = env.run(lambda: gate.forward(obj))
            cur_g, cur_p = ref.ref_transform(cur_g, cur_p, tg, tp)
            env.goal('step%d_forward' % k, b_and(b_not(r.raised), b_and(arr_eq(obj.gs[0], cur_g), eq(obj.ps[0], cur_p))))
        else:
            # backward: the unique operator whose forward image is the current one
            r = env.run(lambda: gate.backward(obj))
            fg, fp = ref.ref_transform(obj.gs[0], obj.ps[0], tg, tp)
            env.goal('step%d_backward' % k, b_and(b_not(r.raised), b_and(arr_eq(fg, cur_g), eq(fp, cur_p))))
            cur_g, cur_p = oarr(list(np.asarray(obj.gs[0], dtype=object))), obj.ps[0]


def h_gate_reads_off_map(env, N, name, qubits):
    """reading a gate's map off an identity map (gate.forward(identity_map(N))), then updating that map further with
    other gates, leaves the gate itself the textbook gate (its tables are its own)"""
    M = Mods(env)
    gate = getattr(M.ci, name)(*qubits)
    n = len(qubits)
    table = oracle_table(name if name != 'CNOT' else ('CNOT_lt' if qubits[0] < qubits[1] else 'CNOT_gt'), n)
    mask = [i in qubits for i in range(N)]
    tg, tp = embedded_table(oarr(table[0]), oarr(table[1]), mask, N)
    t0g, t0p = snapshot(gate.forward_map.gs), snapshot(gate.forward_map.ps)
    m = M.st.identity_map(N)
    r = env.run(lambda: gate.forward(m))
    env.goal('map_read_off', b_and(b_not(r.raised), b_and(arr_eq(m.gs, tg), arr_eq(m.ps, tp))))
    env.goal('map_shares_no_memory_with_gate', not (np.shares_memory(np.asarray(m.gs), np.asarray(gate.forward_map.gs)) or np.shares_memory(np.asarray(m.ps), np.asarray(gate.forward_map.ps))))
    # further in-place updates of the accumulated map (masked paths: a one-qubit gate, a backward pass)
    other = M.ci.S(0)
    r2 = env.run(lambda: (other.backward(m), M.ci.H(N - 1).forward(m), m.rotate_by(M.pa.Pauli(env.const([1, 1] * N), 0))))
    env.goal('further_updates_no_exception', b_not(r2.raised))
    env.goal('gate_table_unchanged', b_and(unchanged(t0g, gate.forward_map.gs), unchanged(t0p, gate.forward_map.ps)))
    _check_gate_on_register(env, M, gate, table, N, list(qubits), 'afterwards:')


def h_gate_on_views(env, N, name, qubits, form):
    """the operand list in different storage layouts (a reversed / strided selection of a longer list, a column window
    of a wider array, a transposed buffer, a negated list sharing its strings): every gate acts on the operators the
    list denotes, whatever the memory layout of its table"""
    M = Mods(env)
    gate = getattr(M.ci, name)(*qubits)
    n = len(qubits)
    table = oracle_table(name if name != 'CNOT' else ('CNOT_lt' if qubits[0] < qubits[1] else 'CNOT_gt'), n)
    mask = [i in qubits for i in range(N)]
    tg, tp = embedded_table(oarr(table[0]), oarr(table[1]), mask, N)
    L = 4 if form == 'strided' else 2
    gs = env.bits('in', (L, 2 * N))
    ps = env.phases('in_ps', (L,))
    base = M.pa.PauliList(gs.copy(), ps.copy())
    if form == 'reversed':
        obj, rows = base[::-1], [1, 0]
    elif form == 'strided':
        obj, rows = base[::2], [0, 2]
    elif form == 'columns':
        if env.symbolic:
            from symclif.shim_numpy import S
            wide = S(np.concatenate([np.asarray(gs, dtype=object), np.asarray(gs, dtype=object)], axis=1))
        else:
            wide = np.concatenate([np.asarray(gs), np.asarray(gs)], axis=1)
        obj, rows = M.pa.PauliList(wide[:, :2 * N], ps.copy()), [0, 1]
    elif form == 'transposed':
        if env.symbolic:
            from symclif.shim_numpy import S
            tr = S(np.ascontiguousarray(np.asarray(gs, dtype=object).T)).T
        else:
            tr = np.ascontiguousarray(np.asarray(gs).T).T
        obj, rows = M.pa.PauliList(tr, ps.copy()), [0, 1]
    elif form == 'negated':
        obj, rows = -base, [0, 1]
    else:
        obj, rows = base, [0, 1]
    res = env.run(lambda: gate.forward(obj))
    env.goal('forward_no_exception', b_not(res.raised))
    if res.value is None:
        return
    for k, r in enumerate(rows):
        p0 = (ps[r] + 2) % 4 if form == 'negated' else ps[r]
        ge, pe = ref.ref_transform(gs[r], p0, tg, tp)
        env.goal('row%d_string' % k, arr_eq(obj.gs[k], ge))
        env.goal('row%d_phase' % k, eq(obj.ps[k], pe))
    res2 = env.run(lambda: gate.backward(obj))
    env.goal('backward_no_exception', b_not(res2.raised))
    if res2.value is not None:
        env.goal('backward_restores', AND(arr_eq(obj.gs[k], gs[r]) for k, r in enumerate(rows)))


def jobs(tier):
    J = []
    nmax = 3 if tier == 'quick' else 4
    for N in range(1, nmax + 1):
        for q in range(N):
            for name in ('H', 'S', 'X', 'Y', 'Z'):
                J.append(dict(harness=('c11', 'h_named'), params=dict(N=N, name=name, q=q)))
            for k in range(24):
                if N <= 2 or (k + q) % 3 == 0 or tier == 'thorough':
                    J.append(dict(harness=('c11', 'h_indexed_on_register'), params=dict(N=N, k=k, q=q)))
        for c, t in itertools.permutations(range(N), 2):
            J.append(dict(harness=('c11', 'h_cnot'), params=dict(N=N, pairs=[[c, t]])))
            J.append(dict(harness=('c11', 'h_cnot'), params=dict(N=N, pairs=[[c, t], [t, c]])))
            J.append(dict(harness=('c11', 'h_cnot'), params=dict(N=N, pairs=[[t, c], [c, t], [t, c]])))
    for N in (2, 3):
        for name, qsets in (('H', [[0]]), ('S', [[N - 1]]), ('Y', [[0]]), ('CNOT', [[0, 1], [1, 0], [N - 1, 0]])):   # S is not an involution
            for qubits in qsets:
                for order in ('bf', 'fbf', 'cfb', 'fcf', 'cbcf', 'nfb', 'ncf', 'ufb', 'ucf', 'bkf', 'ckfb', 'fkbf', 'kfb'):
                    J.append(dict(harness=('c11', 'h_gate_reuse'), params=dict(N=N, name=name, qubits=qubits, order=order)))
    for N in (2, 3):
        for name, qubits in (('H', [0]), ('S', [N - 1]), ('Y', [1]), ('CNOT', [0, 1]), ('CNOT', [N - 1, 0])):
            for form in ('plain', 'reversed', 'strided', 'columns', 'transposed', 'negated'):
                J.append(dict(harness=('c11', 'h_gate_on_views'), params=dict(N=N, name=name, qubits=qubits, form=form)))
    for N, name, qubits in ((1, 'H', [0]), (1, 'S', [0]), (1, 'Y', [0]), (2, 'CNOT', [0, 1]), (2, 'CNOT', [1, 0]), (2, 'H', [1]), (3, 'CNOT', [2, 0])):
        J.append(dict(harness=('c11', 'h_gate_reads_off_map'), params=dict(N=N, name=name, qubits=qubits)))
    J.append(dict(harness=('c11', 'h_indexed'), params=dict(N=1), cost=50))
    return J
