"""C19  Stabilizer-group sampling and classical-shadow snapshots agree with the state."""
import itertools
import numpy as np
import z3
from .common import *
from .tableau import sym_state, mk_state, inv_goals
from .circuits import make_gates
from symclif.values import STORE, bexpr, mkbool, parts, is_sym

MODULES = ('utils', 'paulialg', 'stabilizer', 'circuit', 'device')
CLASS_LAYER = ['StabilizerState.sample/density_matrix/copy/measure', 'ClassicalShadow.__init__/snapshots', 'CliffordCircuit.povm/backward', 'Circuit.povm',
               'onsite_rcc', 'global_rcc', 'zero_state', 'binary_repr', 'PauliPolynomial.__truediv__/__rmul__']
TV_KERNELS = ['pauli_combine', 'stabilizer_measure', 'clifford_rotate', 'pauli_transform']
BOUNDS = {'quick': 'arbitrary Inv state of every rank N<=2: sample(2) with symbolic coins, density_matrix term list; classical shadow with 2 snapshots from one generator over circuits of <=2 symbolic generator gates (both circuit classes, compiled or not) and over onsite_rcc / global_rcc with symbolic coins (N<=2)',
          'thorough': 'sample and density_matrix N=3; shadows with 3 gates'}
OUTSIDE = 'brick-wall circuits (N>=2 even, covered through the same gate mechanism at N=2); statistical quality of the RNG; N beyond the bound'
ASSUMPTIONS = ['state satisfies Inv', 'coins fair and independent: "uniform over the group" is reported as "coins -> sampled element is injective"']
STUBS = ['numpy.random.randint -> fresh solver variables']


def pre(tier):
    return dict(oracle_checked=ref.self_check(2))


def h_sample(env, N, r, L=2):
    M = Mods(env)
    gs, ps = sym_state(env, N)
    state = mk_state(M, env, gs, ps, r)
    res = env.run(lambda: state.sample(L))
    env.goal('no_exception', b_not(res.raised))
    env.goal('state_unchanged', AND([arr_eq(state.gs, gs), arr_eq(state.ps, ps), eq(state.r, r)]))
    if res.value is None:
        return
    smp = res.value
    ok = tuple(np.shape(smp.gs)) == (L, 2 * N)
    env.goal('shape', ok)
    if not ok:
        return
    for k in range(L):
        env.goal('sample[%d]_is_stabilized_with_sign_+1' % k, eq(ref.ref_expect(gs, ps, r, N, smp.gs[k], smp.ps[k]), 1))
    if env.symbolic and N - r > 0:
        coins = env.coins()
        env.goal('coins_per_sample', len(coins) == L * (N - r))
        per = N - r
        mine = coins[:per]
        fresh = [STORE.fresh('coin2', 0, 1) for _ in mine]
        sub = [(c.e, f.e) for c, f in zip(mine, fresh)]
        bits = [eq(smp.gs[0][i], 1) for i in range(2 * N)]
        bits2 = [mkbool(z3.substitute(bexpr(b), *sub)) if is_sym(to_bool(b)) else b for b in bits]
        differ = OR(compare('!=', a, b) for a, b in zip(mine, fresh))
        env.goal('coins_to_element_injective', b_implies(differ, OR(compare('!=', a, b) for a, b in zip(bits, bits2))))
    elif not env.symbolic:
        env.observe('element', [int(x) for x in smp.gs[0]])
        env.observe('element#distinct', 2 ** (N - r))


h_sample.uses_rng = True
h_sample.variation_goals = {'coins_to_element_injective': 'element'}


def h_density_matrix(env, N, r):
    M = Mods(env)
    gs, ps = sym_state(env, N)
    state = mk_state(M, env, gs, ps, r)
    res = env.run(lambda: state.density_matrix)
    env.goal('no_exception', b_not(res.raised))
    env.goal('state_unchanged', AND([arr_eq(state.gs, gs), arr_eq(state.ps, ps), eq(state.r, r)]))
    if res.value is None:
        return
    dm = res.value
    K = 2 ** (N - r)
    ok = tuple(np.shape(dm.gs)) == (K, 2 * N) and tuple(np.shape(dm.cs)) == (K,)
    env.goal('number_of_terms', ok)
    if not ok:
        return
    G = ref.group(gs[r:N], ps[r:N])
    for a, (gg, pp) in enumerate(G):
        hits = sum((ite(b_and(arr_eq(dm.gs[k], gg), eq(dm.ps[k], pp)), 1, 0) for k in range(K)), 0)
        env.goal('group_element_%d_listed_exactly_once' % a, eq(hits, 1))
    for k in range(K):
        cr, ci = parts(dm.cs[k])
        env.goal('weight[%d]' % k, b_and(eq(cr * 2 ** N, 1), eq(ci, 0)))
    # history: change only the signs in place (conjugation by a symbolic Pauli), expand again
    gg = env.bits('gen', (2 * N,))
    G = M.pa.Pauli(gg.copy(), 0)
    res2 = env.run(lambda: state.rotate_by(G).rotate_by(G).density_matrix)
    env.goal('second_no_exception', b_not(res2.raised))
    if res2.value is not None:
        dm2 = res2.value
        ps2 = oarr([(ps[j] + 2 * ite(ref.ref_anti(gg, gs[j]), 1, 0)) % 4 for j in range(2 * N)])
        ok2 = tuple(np.shape(dm2.gs)) == (K, 2 * N)
        env.goal('second_number_of_terms', ok2)
        if ok2:
            for a, (gg2, pp2) in enumerate(ref.group(gs[r:N], ps2[r:N])):
                hits = sum((ite(b_and(arr_eq(dm2.gs[k], gg2), eq(dm2.ps[k], pp2)), 1, 0) for k in range(K)), 0)
                env.goal('after_sign_change_group_element_%d_listed_exactly_once' % a, eq(hits, 1))


def h_shadow(env, N, r, prog, cls='CliffordCircuit', config='plain', nsnap=2):
    """ClassicalShadow(state, circuit).snapshots(nsnap): every snapshot is valid, is stabilized up to sign by the
    back-evolved measurement basis U^dagger Z_i U, overlaps the base state, and the base state is untouched"""
    M = Mods(env)
    dv = env.mod('device')
    gs, ps = sym_state(env, N)
    state = mk_state(M, env, gs, ps, r)
    if prog in ('onsite', 'global'):
        circ = M.ci.onsite_rcc(N) if prog == 'onsite' else M.ci.global_rcc(N)
        tables = None
    else:
        gates, tables, _ = make_gates(env, M, N, prog)
        circ = getattr(M.ci, cls)(N)
        for gt in gates:
            circ.take(gt)
        if config == 'circuit':
            circ.compile()
    res = env.run(lambda: list(dv.ClassicalShadow(state, circ).snapshots(nsnap)))
    env.goal('no_exception', b_not(res.raised))
    env.goal('base_state_untouched', AND([arr_eq(state.gs, gs), arr_eq(state.ps, ps), eq(state.r, r)]))
    if res.value is None:
        return
    snaps = res.value
    env.goal('count', len(snaps) == nsnap)
    env.goal('distinct_objects', len(set(id(s) for s in snaps)) == len(snaps) and all(s is not state for s in snaps))
    for k, s in enumerate(snaps):
        tag = 'snapshot%d_' % k
        inv_goals(env, s.gs, s.ps, s.r, N, None, tag)
        env.goal(tag + 'pure', eq(s.r, 0))
        if is_sym(s.r) or int(s.r) != 0:
            continue
        # overlap with the base state: sum over the snapshot's group of Tr(base g) must be positive
        tot = 0
        for (gg, pp) in ref.group(s.gs[0:N], s.ps[0:N]):
            tot = tot + ref.ref_expect(gs, ps, r, N, gg, pp)
        env.goal(tag + 'nonzero_overlap_with_base_state', compare('>', tot, 0))
        if tables is not None:
            # back-evolved basis: Q_i with  circuit.forward(Q_i) = +-Z_i ; checked as: the forward image of every
            # snapshot stabilizer is a Z-string (reference semantics of the gates)
            for i in range(N):
                g, p = s.gs[i], s.ps[i]
                for t in tables:
                    g, p = ref.ref_transform(g, p, t[0], t[1])
                env.goal(tag + 'stabilizer[%d]_is_a_back-evolved_Z_string' % i, AND(eq(g[2 * q], 0) for q in range(N)))


h_shadow.uses_rng = True


def jobs(tier):
    J = []
    nmax = 2 if tier == 'quick' else 3
    for N in range(1, nmax + 1):
        for r in range(N + 1):
            J.append(dict(harness=('c19', 'h_sample'), params=dict(N=N, r=r), timeout_s=600, cost=10))
            J.append(dict(harness=('c19', 'h_density_matrix'), params=dict(N=N, r=r), timeout_s=600, cost=10))
    progs = [(1, [['gen', [0]]]), (1, [['gen', [0]], ['gen', [0]]]), (2, [['gen', [0, 1]]]), (2, [['gen', [0]], ['gen', [0, 1]]]), (2, [['gen', [0, 1]], ['gen', [1]]])]
    if tier == 'thorough':
        progs += [(2, [['gen', [0, 1]], ['gen', [1]], ['gen', [0, 1]]])]
    for N, prog in progs:
        for r in range(N + 1):
            for cls, config in (('CliffordCircuit', 'plain'), ('CliffordCircuit', 'circuit'), ('Circuit', 'plain')):
                if tier == 'quick' and config == 'circuit' and len(prog) > 1 and r not in (0,):
                    continue
                J.append(dict(harness=('c19', 'h_shadow'), params=dict(N=N, r=r, prog=prog, cls=cls, config=config), timeout_s=900, cost=60, max_paths=5000))
    for N in (1, 2):
        for r in range(N + 1):
            J.append(dict(harness=('c19', 'h_shadow'), params=dict(N=N, r=r, prog='onsite'), timeout_s=900, cost=60, max_paths=20000))
            if N == 1 or r in (0, 1):
                J.append(dict(harness=('c19', 'h_shadow'), params=dict(N=N, r=r, prog='global', nsnap=2 if N == 1 else 1), timeout_s=900, cost=100, max_paths=20000))
    return J
