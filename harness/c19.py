"""C19  Stabilizer-group sampling and classical-shadow snapshots agree with the state."""
import itertools
import numpy as np
import z3
from .common import *
from .tableau import sym_state, mk_state, inv_goals
from .circuits import make_gates
from symclif.values import STORE, bexpr, mkbool, parts, is_sym

MODULES = ('utils', 'paulialg', 'stabilizer', 'circuit', 'device')
CLASS_LAYER = ['StabilizerState.sample/density_matrix/copy/measure', 'ClassicalShadow.__init__/snapshots', 'CliffordCircuit.povm/backward', 'Circuit.povm',
               'onsite_rcc', 'global_rcc', 'zero_state', 'binary_repr', 'PauliPolynomial.__truediv__/__rmul__']
TV_KERNELS = ['pauli_combine', 'stabilizer_measure', 'clifford_rotate', 'pauli_transform']
BOUNDS = {'quick': 'arbitrary Inv state of every rank N<=2: sample(2) with symbolic coins, density_matrix term list; classical shadow with 2 snapshots from one generator over circuits of <=2 symbolic generator gates (both circuit classes, compiled or not) and over onsite_rcc / global_rcc with symbolic coins (N<=2)',
          'thorough': 'sample and density_matrix N=3; shadows with 3 gates'}
OUTSIDE = 'brick-wall circuits (N>=2 even, covered through the same gate mechanism at N=2); statistical quality of the RNG; N beyond the bound'
ASSUMPTIONS = ['state satisfies Inv', 'coins fair and independent: "uniform over the group" is reported as "coins -> sampled element is injective"']
STUBS = ['numpy.random.randint -> fresh solver variables']


def pre(tier):
    return dict(oracle_checked=ref.self_check(2))


def h_sample(env, N, r, L=2):
    M = Mods(env)
    gs, ps = sym_state(env, N)
    state = mk_state(M, env, gs, ps, r)
    res = env.run(lambda: state.sample(L))
    env.goal('no_exception', b_not(res.raised))
    env.goal('state_unchanged', AND([arr_eq(state.gs, gs), arr_eq(state.ps, ps), eq(state.r, r)]))
    if res.value is None:
        return
    smp = res.value
    ok = tuple(np.shape(smp.gs)) == (L, 2 * N)
    env.goal('shape', ok)
    if not ok:
        return
    for k in range(L):
        env.goal('sample[%d]_is_stabilized_with_sign_+1' % k, eq(ref.ref_expect(gs, ps, r, N, smp.gs[k], smp.ps[k]), 1))
    # (uniformity over the group is decided by fibre counting across all paths: u_sample_uniform below)


h_sample.uses_rng = True
h_sample.variation_goals = {'coins_to_element_injective': 'element'}


def u_sample_uniform(job, packages, rec):
    """sample(1) is uniform over the 2^(N-r) group elements for EVERY valid state: with T equally likely coin vectors
    and E = 2^(N-r) elements, no K+1 = T/E + 1 pairwise different coin vectors may give the same element (pigeonhole:
    then every element has exactly K preimages).  Independent of how the implementation spends its coins."""
    import os
    from symclif import explore
    N, r = job['params']['N'], job['params']['r']

    def thunk(env):
        M = Mods(env)
        gs, ps = sym_state(env, N)
        state = mk_state(M, env, gs, ps, r)
        smp = state.sample(1)
        return [smp.gs[0][i] for i in range(2 * N)] + [smp.ps[0]]
    paths = explore.collect_paths(thunk, packages, rec)
    coins = paths[0]['coins']
    if any(len(p['coins']) != len(coins) for p in paths):
        rec['errors'].append('the number of coins depends on the path')
        return
    T = 1
    for c in coins:
        T *= (c.hi - c.lo + 1)
    E = 2 ** (N - r)
    rec['notes'] = dict(paths=len(paths), coin_vectors=T, elements=E)
    inputs_now = dict(STORE.inputs)

    def instance(tag):
        cs = [z3.BitVec('%s_%d' % (tag, i), c.e.size()) for i, c in enumerate(coins)]
        rng = [z3.ULE(v, c.hi) for v, c in zip(cs, coins)]
        sub = [(c.e, v) for c, v in zip(coins, cs)]
        rows = []
        for p in paths:
            pcs = p['pc'] + p['assumed']
            pc = z3.And(*[z3.substitute(x, *sub) for x in pcs]) if pcs else z3.BoolVal(True)
            vals = []
            for x in p['value']:
                x = to_int(x)
                vals.append(z3.substitute(x.e, *sub) if is_sym(x) else z3.BitVecVal(int(x), 8))
            rows.append((pc, vals))
        return cs, rng, rows

    def same_element(rows, tgt):
        return z3.Or(*[z3.And(pc, *[z3.ZeroExt(8 - v.size(), v) == t if v.size() < 8 else v == t for v, t in zip(vals, tgt)]) for pc, vals in rows])
    tgt = [z3.BitVec('elem_%d' % i, 8) for i in range(2 * N + 1)]
    if T % E != 0:
        rec['errors'].append('%d coin vectors cannot be spread evenly over %d elements: the sampler cannot be uniform (no replayable witness built for this case)' % (T, E))
        return
    K = T // E
    for n_copies, expect in ((K + 1, 'unsat'), (K, 'sat')):
        cons, copies = [], []
        for j in range(n_copies):
            cs, rng, rows = instance('c%d_%d' % (n_copies, j))
            cons += rng + [same_element(rows, tgt)]
            copies.append(cs)
        for a in range(n_copies):
            for b in range(a + 1, n_copies):
                cons.append(z3.Or(*[x != y for x, y in zip(copies[a], copies[b])]))
        name = 'no_%d_distinct_coin_vectors_give_the_same_element' % n_copies if expect == 'unsat' else 'some_element_has_%d_distinct_preimages' % n_copies
        sv, res = explore.solve_query(rec, name, cons, job.get('timeout_s', 600), expect)
        if expect == 'sat':
            if res == 'sat':
                rec['vacuity_witnesses'] += 1
            elif res == 'unsat':
                rec['errors'].append('vacuous: no element has K preimages')
        elif res == 'sat':
            m = sv.model()
            STORE.inputs = inputs_now
            cex = dict(property='C19', harness=list(job['harness']), params=job['params'], label=job['label'], goal='uniformity', kind='sample_not_uniform',
                       inputs=dict(explore.extract_inputs(m), coin_vectors=[[m.eval(v, model_completion=True).as_long() for v in cs] for cs in copies], K=K), tags={}, notes=[])
            path = explore.write_replay(os.path.join(explore.VERIF, 'replays'), cex)
            rp = explore.replay_file(path, timeout=900)
            if rp.get('status') == 'reproduced':
                rec['violations'].append(dict(goal='uniformity', replay=path, inputs=cex['inputs']))
            else:
                rec['errors'].append('non-uniformity witness did not reproduce on the real build (%s): %s' % (rp.get('status'), path))


u_sample_uniform.custom = True


def custom_judge(cex):
    """concrete confirmation of a non-uniform sample(1): the empirical distribution over 400 * 2^(N-r) draws on the
    real build misses a group element or is off by more than a factor 1.5 for some element"""
    import warnings
    warnings.filterwarnings('ignore')
    from symclif import explore
    st = explore.real_modules('pyclifford', 'stabilizer')
    N, r = cex['params']['N'], cex['params']['r']
    gs = np.array(cex['inputs']['s'], dtype=np.int64)
    ps = np.array(cex['inputs']['s_sign'], dtype=np.int64)
    ps = ps if ps.max(initial=0) > 1 else 2 * ps
    state = st.StabilizerState(gs.copy(), ps=ps.copy()).set_r(r)
    E = 2 ** (N - r)
    M = 400 * E
    explore.seed_all(None, 20261004)
    counts = {}
    for _ in range(M):
        smp = state.sample(1)
        key = tuple(int(x) for x in smp.gs[0]) + (int(smp.ps[0]) % 4,)
        counts[key] = counts.get(key, 0) + 1
    exp = M / E
    bad = len(counts) != E or any(c < exp / 1.5 or c > exp * 1.5 for c in counts.values())
    return dict(status='reproduced' if bad else 'not-reproduced', draws=M, distinct=len(counts), expected_distinct=E,
                min_count=min(counts.values()), max_count=max(counts.values()))


def h_density_matrix(env, N, r):
    M = Mods(env)
    gs, ps = sym_state(env, N)
    state = mk_state(M, env, gs, ps, r)
    res = env.run(lambda: state.density_matrix)
    env.goal('no_exception', b_not(res.raised))
    env.goal('state_unchanged', AND([arr_eq(state.gs, gs), arr_eq(state.ps, ps), eq(state.r, r)]))
    if res.value is None:
        return
    dm = res.value
    K = 2 ** (N - r)
    ok = tuple(np.shape(dm.gs)) == (K, 2 * N) and tuple(np.shape(dm.cs)) == (K,)
    env.goal('number_of_terms', ok)
    if not ok:
        return
    G = ref.group(gs[r:N], ps[r:N])
    for a, (gg, pp) in enumerate(G):
        hits = sum((ite(b_and(arr_eq(dm.gs[k], gg), eq(dm.ps[k], pp)), 1, 0) for k in range(K)), 0)
        env.goal('group_element_%d_listed_exactly_once' % a, eq(hits, 1))
    for k in range(K):
        cr, ci = parts(dm.cs[k])
        env.goal('weight[%d]' % k, b_and(eq(cr * 2 ** N, 1), eq(ci, 0)))
    # history: change only the signs in place (conjugation by a symbolic Pauli), expand again
    gg = env.bits('gen', (2 * N,))
    G = M.pa.Pauli(gg.copy(), 0)
    res2 = env.run(lambda: state.rotate_by(G).rotate_by(G).density_matrix)
    env.goal('second_no_exception', b_not(res2.raised))
    if res2.value is not None:
        dm2 = res2.value
        ps2 = oarr([(ps[j] + 2 * ite(ref.ref_anti(gg, gs[j]), 1, 0)) % 4 for j in range(2 * N)])
        ok2 = tuple(np.shape(dm2.gs)) == (K, 2 * N)
        env.goal('second_number_of_terms', ok2)
        if ok2:
            for a, (gg2, pp2) in enumerate(ref.group(gs[r:N], ps2[r:N])):
                hits = sum((ite(b_and(arr_eq(dm2.gs[k], gg2), eq(dm2.ps[k], pp2)), 1, 0) for k in range(K)), 0)
                env.goal('after_sign_change_group_element_%d_listed_exactly_once' % a, eq(hits, 1))


def h_shadow(env, N, r, prog, cls='CliffordCircuit', config='plain', nsnap=2):
    """ClassicalShadow(state, circuit).snapshots(nsnap): every snapshot is valid, is stabilized up to sign by the
    back-evolved measurement basis U^dagger Z_i U, overlaps the base state, and the base state is untouched"""
    M = Mods(env)
    dv = env.mod('device')
    gs, ps = sym_state(env, N)
    state = mk_state(M, env, gs, ps, r)
    if prog in ('onsite', 'global'):
        circ = M.ci.onsite_rcc(N) if prog == 'onsite' else M.ci.global_rcc(N)
        tables = None
    else:
        gates, tables, _ = make_gates(env, M, N, prog)
        circ = getattr(M.ci, cls)(N)
        for gt in gates:
            circ.take(gt)
        if config == 'circuit':
            circ.compile()
    res = env.run(lambda: list(dv.ClassicalShadow(state, circ).snapshots(nsnap)))
    env.goal('no_exception', b_not(res.raised))
    env.goal('base_state_untouched', AND([arr_eq(state.gs, gs), arr_eq(state.ps, ps), eq(state.r, r)]))
    if res.value is None:
        return
    snaps = res.value
    env.goal('count', len(snaps) == nsnap)
    env.goal('distinct_objects', len(set(id(s) for s in snaps)) == len(snaps) and all(s is not state for s in snaps))
    for k, s in enumerate(snaps):
        tag = 'snapshot%d_' % k
        inv_goals(env, s.gs, s.ps, s.r, N, None, tag)
        env.goal(tag + 'pure', eq(s.r, 0))
        if is_sym(s.r) or int(s.r) != 0:
            continue
        # overlap with the base state: sum over the snapshot's group of Tr(base g) must be positive
        tot = 0
        for (gg, pp) in ref.group(s.gs[0:N], s.ps[0:N]):
            tot = tot + ref.ref_expect(gs, ps, r, N, gg, pp)
        env.goal(tag + 'nonzero_overlap_with_base_state', compare('>', tot, 0))
        if tables is not None:
            # back-evolved basis: Q_i with  circuit.forward(Q_i) = +-Z_i ; checked as: the forward image of every
            # snapshot stabilizer is a Z-string (reference semantics of the gates)
            for i in range(N):
                g, p = s.gs[i], s.ps[i]
                for t in tables:
                    g, p = ref.ref_transform(g, p, t[0], t[1])
                env.goal(tag + 'stabilizer[%d]_is_a_back-evolved_Z_string' % i, AND(eq(g[2 * q], 0) for q in range(N)))


h_shadow.uses_rng = True


def jobs(tier):
    J = []
    nmax = 2 if tier == 'quick' else 3
    for N in range(1, nmax + 1):
        for r in range(N + 1):
            J.append(dict(harness=('c19', 'h_sample'), params=dict(N=N, r=r), timeout_s=600, cost=10))
            J.append(dict(harness=('c19', 'h_density_matrix'), params=dict(N=N, r=r), timeout_s=600, cost=10))
            if r < N:
                J.append(dict(harness=('c19', 'u_sample_uniform'), params=dict(N=N, r=r), timeout_s=600, cost=20))
    progs = [(1, [['gen', [0]]]), (1, [['gen', [0]], ['gen', [0]]]), (2, [['gen', [0, 1]]]), (2, [['gen', [0]], ['gen', [0, 1]]]), (2, [['gen', [0, 1]], ['gen', [1]]])]
    if tier == 'thorough':
        progs += [(2, [['gen', [0, 1]], ['gen', [1]], ['gen', [0, 1]]])]
    for N, prog in progs:
        for r in range(N + 1):
            for cls, config in (('CliffordCircuit', 'plain'), ('CliffordCircuit', 'circuit'), ('Circuit', 'plain')):
                if tier == 'quick' and config == 'circuit' and len(prog) > 1 and r not in (0,):
                    continue
                J.append(dict(harness=('c19', 'h_shadow'), params=dict(N=N, r=r, prog=prog, cls=cls, config=config), timeout_s=900, cost=60, max_paths=5000))
    for N in (1, 2):
        for r in range(N + 1):
            J.append(dict(harness=('c19', 'h_shadow'), params=dict(N=N, r=r, prog='onsite'), timeout_s=900, cost=60, max_paths=20000))
            if N == 1 or r in (0, 1):
                J.append(dict(harness=('c19', 'h_shadow'), params=dict(N=N, r=r, prog='global', nsnap=2 if N == 1 else 1), timeout_s=900, cost=100, max_paths=20000))
    return J
