"""Reference semantics, derived from 2x2 matrices at import time -- shares no code with the repo.

sigma(x,z) = i^(x z) X^x Z^z  (so (1,1) is Y); an operator is (g, p) = i^p * tensor_k sigma(g[2k], g[2k+1]).
All functions work on concrete ints and on symbolic scalars alike.
"""
import itertools
import numpy as np
import z3
from .values import (SV, is_sym, to_int, to_bool, compare, ite, b_and, b_or, b_not, AND, OR, arith, mkbool, arr_eq,
                     oarr)

X2 = np.array([[0, 1], [1, 0]], dtype=complex)
Z2 = np.array([[1, 0], [0, -1]], dtype=complex)
I2 = np.eye(2, dtype=complex)


def sig(x, z):
    return (1j) ** (x * z) * np.linalg.matrix_power(X2, x) @ np.linalg.matrix_power(Z2, z)


# single-qubit product table: sig(a) sig(b) = i^T[a,b] sig(a xor b)
T = {}
for _a in itertools.product((0, 1), repeat=2):
    for _b in itertools.product((0, 1), repeat=2):
        _P = sig(*_a) @ sig(*_b)
        _c = ((_a[0] + _b[0]) % 2, (_a[1] + _b[1]) % 2)
        _ks = [k for k in range(4) if np.allclose(_P, (1j) ** k * sig(*_c))]
        assert len(_ks) == 1
        T[_a, _b] = _ks[0]
ANTI = {k: int(T[k] != T[k[1], k[0]]) for k in T}


def dense(g, p=0):
    """2^N x 2^N matrix of a concrete operator"""
    g = [int(v) for v in g]
    m = np.array([[1.0 + 0j]])
    for k in range(len(g) // 2):
        m = np.kron(m, sig(g[2 * k], g[2 * k + 1]))
    return (1j) ** int(p) * m


def _bit(x):
    x = to_int(x)
    return x.e if is_sym(x) else z3.BitVecVal(x, 1)


def _lookup(table, width, g1, g2, i):
    vals = [g1[2 * i], g1[2 * i + 1], g2[2 * i], g2[2 * i + 1]]
    if not any(is_sym(to_int(v)) for v in vals):
        a = (int(vals[0]), int(vals[1]))
        b = (int(vals[2]), int(vals[3]))
        return table[a, b]
    key = z3.Concat(*[_bit(v) for v in vals])
    e = z3.BitVecVal(0, width)
    for (a, b), k in table.items():
        if k:
            e = z3.If(key == (a[0] * 8 + a[1] * 4 + b[0] * 2 + b[1]), z3.BitVecVal(k, width), e)
    return SV.mk(z3.ZeroExt(1, e), 0, (1 << width) - 1)


def ref_ipow(g1, g2):
    tot = 0
    for i in range(len(g1) // 2):
        tot = tot + _lookup(T, 2, g1, g2, i)
    return tot % 4


def ref_anti(g1, g2):
    """True iff the two strings anticommute"""
    tot = 0
    for i in range(len(g1) // 2):
        tot = tot + _lookup(ANTI, 1, g1, g2, i)
    return compare('==', tot % 2, 1)


def xor(g1, g2):
    return oarr([(a + b) % 2 for a, b in zip(g1, g2)])


def ref_mul(g1, p1, g2, p2):
    """(g1,p1) * (g2,p2)"""
    return xor(g1, g2), (p1 + p2 + ref_ipow(g1, g2)) % 4


def ref_rotate(gg, pg, g, p):
    """U^dagger P U for U = exp(i pi/4 G), G=(gg,pg) Hermitian:  P if [P,G]=0 else i P G"""
    a = ref_anti(gg, g)
    g2, p2 = ref_mul(g, p, gg, pg)
    p2 = (p2 + 1) % 4
    return oarr([ite(a, x, y) for x, y in zip(g2, g)]), ite(a, p2, p)


def ref_fold(sel, gs, ps):
    """ordered product of the rows of (gs, ps) selected by the bits sel"""
    n2 = gs.shape[1]
    g = oarr([0] * n2)
    p = 0
    for k in range(len(sel)):
        g2, p2 = ref_mul(g, p, gs[k], ps[k])
        c = compare('==', sel[k], 1)
        g = oarr([ite(c, a, b) for a, b in zip(g2, g)])
        p = ite(c, p2, p)
    return g, p


def ref_bare_phase(g):
    """x.z mod 4: the phase that relates  prod_k X^x Z^z  to sigma(g):  prod_k X_k^x Z_k^z = i^-(x.z) sigma(g)"""
    tot = 0
    for i in range(len(g) // 2):
        tot = tot + g[2 * i] * g[2 * i + 1]
    return tot % 4


def ref_transform(g, p, mg, mp):
    """image of (g,p) under the homomorphic extension of  X_k -> (mg[2k], mp[2k]),  Z_k -> (mg[2k+1], mp[2k+1]).
    sigma(g) = i^(x.z) prod_k X_k^x_k Z_k^z_k  (per qubit X before Z, qubits in order)."""
    gi, pi = ref_fold(g, mg, mp)
    return gi, (p + ref_bare_phase(g) + pi) % 4


def group(gens_g, gens_p):
    """all 2^k signed products of k generators (list of (g,p)), in binary order of the selection"""
    k = len(gens_g)
    out = []
    for c in itertools.product((0, 1), repeat=k):
        n2 = gens_g.shape[1]
        g = oarr([0] * n2)
        p = 0
        for a in range(k):
            if c[a]:
                g, p = ref_mul(g, p, gens_g[a], gens_p[a])
        out.append((g, p))
    return out


def ref_expect(sg, sp, r, N, g, p):
    """Tr(rho (g,p)) for the state whose active stabilizers are rows r..N-1: +1/-1 if +/-(g,p) in the group else 0"""
    res = 0
    for (gg, pp) in group(sg[r:N], sp[r:N]):
        same = arr_eq(gg, g)
        res = ite(b_and(same, compare('==', pp, p)), 1,
                  ite(b_and(same, compare('==', (pp + 2) % 4, p)), -1, res))
    return res


def in_group_count(sg, sp, r, N, pred):
    """number of group elements satisfying pred(g) (for entropy)"""
    tot = 0
    for (gg, pp) in group(sg[r:N], sp[r:N]):
        tot = tot + ite(pred(gg), 1, 0)
    return tot


def support_inside(g, mask):
    """True iff string g acts trivially outside the region mask (concrete bools)"""
    return AND(compare('==', g[2 * i + b], 0) for i in range(len(mask)) if not mask[i] for b in (0, 1))


def ref_entropy(sg, sp, r, N, mask):
    """|A| - log2 #{g in group: supp g inside A}; returned as (|A|, count) -- count is a power of two"""
    return int(sum(bool(m) for m in mask)), in_group_count(sg, sp, r, N, lambda g: support_inside(g, mask))


def is_pow2_log(count, k):
    return compare('==', count, 1 << k)


def valid_map(gs, ps):
    """rows (X0,Z0,X1,Z1,..) satisfy the canonical commutation relations and all phases are even"""
    n2 = gs.shape[0]
    cs = []
    for i in range(n2):
        for j in range(i + 1, n2):
            want = (j == i + 1 and i % 2 == 0)
            a = ref_anti(gs[i], gs[j])
            cs.append(a if want else b_not(a))
        cs.append(compare('==', ps[i] % 2, 0))
    return AND(cs)


def symplectic(gs):
    n2 = gs.shape[0]
    cs = []
    for i in range(n2):
        for j in range(i + 1, n2):
            want = (j == i + 1 and i % 2 == 0)
            a = ref_anti(gs[i], gs[j])
            cs.append(a if want else b_not(a))
    return AND(cs)


def inv_conjuncts(gs, ps, N, label=''):
    """tableau invariant Inv as named conjuncts: row i anticommutes with row i+N and with no other row; phases even"""
    cs = []
    for i in range(2 * N):
        for j in range(i + 1, 2 * N):
            want = (j == i + N)
            a = ref_anti(gs[i], gs[j])
            cs.append(('%santi[%d,%d]' % (label, i, j), a if want else b_not(a)))
        cs.append(('%seven[%d]' % (label, i), compare('==', ps[i] % 2, 0)))
    return cs


def binary(a):
    return AND(b_or(compare('==', x, 0), compare('==', x, 1)) for x in np.asarray(a, dtype=object).reshape(-1))


def valid_tableau(gs, ps, N):
    return AND(c for _, c in inv_conjuncts(gs, ps, N))


def bits_le(n, k):
    return [(n >> i) & 1 for i in range(k)]


# ---------------------------------------------------------------- self-validation against dense matrices
def self_check(nmax=2):
    """enumerate the oracle (not the code under test) against dense matrices for N<=nmax"""
    n_checked = 0
    for N in range(1, nmax + 1):
        strs = list(itertools.product((0, 1), repeat=2 * N))
        for g1 in strs:
            D1 = dense(g1)
            for g2 in strs:
                D2 = dense(g2)
                g3, p3 = ref_mul(list(g1), 0, list(g2), 0)
                assert np.allclose(D1 @ D2, dense(g3, p3)), ('mul', g1, g2)
                anti = bool(ref_anti(list(g1), list(g2)))
                assert np.allclose(D1 @ D2, (-1 if anti else 1) * D2 @ D1), ('anti', g1, g2)
                n_checked += 2
                # rotation: U^dagger P U with U = (1 + i G)/sqrt2 ; both signs of G
                for pg in (0, 2):
                    G = dense(g1, pg)
                    U = (np.eye(2 ** N) + 1j * G) / np.sqrt(2)
                    for p in range(4):
                        gr, pr = ref_rotate(list(g1), pg, list(g2), p)
                        assert np.allclose(U.conj().T @ dense(g2, p) @ U, dense(gr, pr)), ('rot', g1, pg, g2, p)
                        n_checked += 1
        # bare phase: prod_k X^x Z^z = i^-(x.z) sigma(g)
        for g in strs:
            m = np.array([[1.0 + 0j]])
            for k in range(N):
                m = np.kron(m, np.linalg.matrix_power(X2, g[2 * k]) @ np.linalg.matrix_power(Z2, g[2 * k + 1]))
            assert np.allclose(m * (1j) ** int(ref_bare_phase(list(g))), dense(g)), ('bare', g)
            n_checked += 1
    return n_checked
