"""torch stand-in for C13: tensors are numpy object arrays of exact numbers / symbolic scalars (subclass of SArr).

Stub contract: the tensor operations used by torchclifford behave as documented by PyTorch on small integer-valued
float32 / int64 / bool / complex64 tensors (exact while |v| < 2**24, which the interval bookkeeping reports).
Data-dependent shapes (nonzero, boolean masks, masked_select, unique) fork the path.  torch.jit.script is the identity.
torch.linalg.matrix_rank is modelled as the exact rank over the rationals (assumption: the SVD tolerance separates the
0/1 matrices of the bound).  A function that needs an API not provided here raises NeedConcrete (listed as not encoded).
"""
import fractions
import numpy as real_np
from .values import (SV, SC, SDyad, NeedConcrete, STORE, is_sym, to_int, to_bool, compare, ite, b_and, b_or, b_not, arith,
                     oarr, AND, OR)
from .shim_numpy import SArr, S, _collapse, _is_boolish, NP, _lex_cmp


class _DType:
    def __init__(self, name, kind):
        self.name, self.kind = name, kind
        self.is_floating_point = kind == 'f'

    def __repr__(self):
        return 'torch.' + self.name


float32 = _DType('float32', 'f')
float64 = _DType('float64', 'f')
int64 = _DType('int64', 'i')
int32 = _DType('int32', 'i')
int8 = _DType('int8', 'i')
bool_ = _DType('bool', 'b')
complex64 = _DType('complex64', 'c')
complex128 = _DType('complex128', 'c')


class _Device:
    type = 'cpu'

    def __eq__(self, o):
        return True

    def __repr__(self):
        return "device(type='cpu')"


CPU = _Device()


def _kw(kw):
    """torch keyword names -> numpy"""
    out = {}
    for k, v in kw.items():
        if k in ('dim', 'axis'):
            out['axis'] = v
        elif k in ('device', 'dtype', 'out', 'keepdim') and k != 'keepdim':
            continue
        elif k == 'keepdim':
            out['keepdims'] = v
        else:
            out[k] = v
    return out


def T(a):
    """wrap as tensor"""
    if isinstance(a, Tensor):
        return a
    if isinstance(a, real_np.ndarray):
        if a.dtype != object and a.dtype != bool:
            a = a.astype(object)
        return a.view(Tensor)
    b = real_np.empty((), dtype=object)
    b[()] = a
    return b.view(Tensor)


def _un(x):
    return real_np.asarray(x) if isinstance(x, real_np.ndarray) else x


_CMP_UFUNCS = (real_np.equal, real_np.not_equal, real_np.less, real_np.less_equal, real_np.greater, real_np.greater_equal,
               real_np.logical_and, real_np.logical_or, real_np.logical_not)


def _tag(t, dt):
    if isinstance(t, Tensor):
        t._dt = dt
    return t


class Tensor(SArr):
    device = CPU
    _is_torch_tensor = True
    # storage class of the tensor as far as it is known: 'i' (integer dtypes), 'f' (floating), None (not tracked).
    # Only Tensor.to() looks at it: torch returns the tensor itself when the requested dtype is the one it already has,
    # so in-place arithmetic on the "converted" tensor writes into the original.
    _dt = None

    def __array_finalize__(self, obj):
        self._dt = getattr(obj, '_dt', None)

    def __array_ufunc__(self, ufunc, method, *inputs, **kw):
        r = SArr.__array_ufunc__(self, ufunc, method, *inputs, **kw)
        if r is None or r is NotImplemented or isinstance(r, tuple):
            return r
        r = T(r)
        tags = [i._dt for i in inputs if isinstance(i, Tensor)]
        floaty = any(isinstance(i, (float, complex, real_np.floating)) for i in inputs) or ufunc in (real_np.true_divide,)
        if ufunc in _CMP_UFUNCS:
            dt = None
        elif 'f' in tags or floaty:
            dt = 'f'
        elif tags and all(t == 'i' for t in tags):
            dt = 'i'
        else:
            dt = None
        if isinstance(r, Tensor) and not (kw.get('out') and r is kw['out'][0]):
            r._dt = dt
        return r

    def _uint8_masks(self, idx):
        # torch reads a uint8 index array as a mask: its shape has to match the indexed dimensions
        items = idx if isinstance(idx, tuple) else (idx,)
        d = 0
        for it in items:
            if isinstance(it, real_np.ndarray) and it.dtype == real_np.uint8 and not isinstance(it, Tensor):
                if tuple(it.shape) != tuple(self.shape[d:d + it.ndim]):
                    raise IndexError('The shape of the mask %s at index %d does not match the shape of the indexed tensor %s at index %d'
                                     % (list(it.shape), it.ndim - 1, list(self.shape), d + it.ndim - 1))
                d += it.ndim
            else:
                d += 1

    def __getitem__(self, idx):
        self._uint8_masks(idx)
        idx = _idx(idx)
        r = SArr.__getitem__(self, idx)
        return T(r) if isinstance(r, real_np.ndarray) else T(r)

    def __setitem__(self, idx, v):
        self._uint8_masks(idx)
        idx = _idx(idx)
        if isinstance(v, Tensor) and v.ndim == 0:
            v = v.item_()
        SArr.__setitem__(self, idx, _un(v))

    # ---- scalars
    def item_(self):
        return real_np.asarray(self).reshape(-1)[0]

    def item(self):
        v = self.item_()
        if isinstance(v, SV):
            return bool(v) if v.kind == 'b' else int(v)       # a Python number is needed: fork
        return v

    def __bool__(self):
        if real_np.asarray(self).size != 1:
            raise RuntimeError('Boolean value of Tensor with more than one value is ambiguous')
        return bool(to_bool(self.item_()))

    def __int__(self):
        return int(self.item_())

    __index__ = __int__

    def __float__(self):
        return float(self.item())

    def __len__(self):
        if self.ndim == 0:
            raise TypeError('len() of a 0-d tensor')
        return self.shape[0]

    def __hash__(self):
        return id(self)

    def __eq__(self, o):
        return T(real_np.ndarray.__eq__(self, o))

    def __ne__(self, o):
        return T(real_np.ndarray.__ne__(self, o))

    def __invert__(self):
        return T(NP.logical_not(real_np.asarray(self)))

    def __pow__(self, o):
        return T(real_np.frompyfunc(lambda a, b: arith('**', a, b), 2, 1)(real_np.asarray(self), _un(o)))

    def __rpow__(self, o):
        return T(real_np.frompyfunc(lambda a, b: arith('**', a, b), 2, 1)(_un(o), real_np.asarray(self)))

    def __matmul__(self, o):
        return matmul(self, o)

    # ---- shape
    def dim(self):
        return self.ndim

    def numel(self):
        return int(real_np.prod(self.shape))

    def view(self, *shape):
        if len(shape) == 1 and isinstance(shape[0], (tuple, list)):
            shape = tuple(shape[0])
        return T(real_np.asarray(self).reshape(shape))

    def reshape(self, *shape):
        return self.view(*shape)

    def flatten(self):
        return T(real_np.asarray(self).reshape(-1))

    def unsqueeze(self, d):
        return T(real_np.expand_dims(real_np.asarray(self), d))

    def squeeze(self, d=None):
        a = real_np.asarray(self)
        if d is None:
            return T(a.squeeze())
        return T(a.squeeze(d)) if a.shape[d] == 1 else T(a)

    def repeat(self, *sizes):
        if len(sizes) == 1 and isinstance(sizes[0], (tuple, list)):
            sizes = tuple(sizes[0])
        return T(real_np.tile(real_np.asarray(self), sizes))

    def repeat_interleave(self, n, dim=None):
        return T(real_np.repeat(real_np.asarray(self), n, axis=dim))

    def t(self):
        return T(real_np.asarray(self).T)

    @property
    def T(self):
        return T(real_np.asarray(self).T)

    def clone(self):
        return _tag(T(real_np.asarray(self).copy()), self._dt)

    def conj(self):
        return conj(self)

    def vdot(self, other):
        return vdot(self, other)

    def detach(self):
        return self

    def cpu(self):
        return self

    def numpy(self):
        a = real_np.asarray(self)
        if a.dtype == object and a.size and all(isinstance(x, (int, real_np.integer)) and not isinstance(x, (bool, real_np.bool_)) for x in a.reshape(-1)):
            return a.astype(real_np.int64)
        return a

    def contiguous(self):
        # torch: the tensor itself when it already is contiguous, a fresh copy otherwise (e.g. after expand / transpose)
        a = real_np.asarray(self)
        if a.flags['C_CONTIGUOUS']:
            return self
        return _tag(T(real_np.ascontiguousarray(a)), self._dt)

    def expand(self, *sizes):
        if len(sizes) == 1 and isinstance(sizes[0], (tuple, list)):
            sizes = tuple(sizes[0])
        a = real_np.asarray(self)
        shape = tuple(a.shape[i - (len(sizes) - a.ndim)] if int(sz) == -1 else int(sz) for i, sz in enumerate(sizes))
        if shape == a.shape:
            return self                 # nothing to broadcast: the same storage
        v = real_np.broadcast_to(a, shape)        # stride-0 view, not contiguous (contiguous() copies it)
        return _tag(T(v), self._dt)

    def expand_as(self, other):
        return self.expand(*real_np.shape(other))

    def _inplace(self, ufunc, other):
        r = ufunc(real_np.asarray(self).view(SArr), _un(other))
        real_np.asarray(self)[...] = real_np.asarray(r)
        return self

    def add_(self, other, alpha=1):
        return self._inplace(real_np.add, other if alpha == 1 else _un(other) * alpha)

    def sub_(self, other, alpha=1):
        return self._inplace(real_np.subtract, other if alpha == 1 else _un(other) * alpha)

    def mul_(self, other):
        return self._inplace(real_np.multiply, other)

    def remainder_(self, other):
        return self._inplace(real_np.remainder, other)

    def fmod_(self, other):
        return self._inplace(real_np.remainder, other)

    def copy_(self, other):
        real_np.asarray(self)[...] = real_np.asarray(_un(other))
        return self

    def fill_(self, v):
        real_np.asarray(self)[...] = v
        return self

    def zero_(self):
        return self.fill_(0)

    def to(self, *a, **k):
        dt = None
        for x in list(a) + list(k.values()):
            if isinstance(x, _DType) or x is bool or x is int or x is float:
                dt = x
        if dt is bool_ or dt is bool:
            return T(_collapse(real_np.frompyfunc(to_bool, 1, 1)(real_np.asarray(self))) if real_np.asarray(self).size else real_np.zeros(self.shape, dtype=bool))
        if dt is not None and (dt is int or dt is float or getattr(dt, 'kind', '') in 'if'):
            want = 'i' if (dt is int or getattr(dt, 'kind', '') == 'i') else 'f'
            if self._dt == want and real_np.asarray(self).dtype == object:
                return self          # same dtype: torch hands back the very same tensor (no copy)
            return _tag(T(real_np.frompyfunc(lambda x: to_int(x) if _is_boolish(x) else x, 1, 1)(real_np.asarray(self)) if real_np.asarray(self).size else real_np.asarray(self).astype(object)), want)
        return self

    def float(self):
        return self.to(float32)

    def long(self):
        return self.to(int64)

    def int(self):
        return self.to(int64)

    def bool(self):
        return self.to(bool_)

    @property
    def dtype(self):
        a = real_np.asarray(self)
        if a.dtype == bool:
            return bool_
        flat = a.reshape(-1)
        if flat.size and all(_is_boolish(x) for x in flat):
            return bool_
        if flat.size and any(isinstance(x, (complex, SC)) for x in flat):
            return complex64
        return float32

    # ---- reductions / comparisons
    def sum(self, *a, **k):
        return sum_(self, *a, **k)

    def ge(self, v):
        return T(real_np.frompyfunc(lambda x: compare('>=', to_int(x) if _is_boolish(x) else x, v), 1, 1)(real_np.asarray(self)) if real_np.asarray(self).size else real_np.zeros(self.shape, dtype=bool))

    def all(self, *a, **k):
        return T(AND(real_np.asarray(self).reshape(-1)))

    def any(self, *a, **k):
        return T(OR(real_np.asarray(self).reshape(-1)))

    def nonzero(self, as_tuple=False):
        return nonzero(self, as_tuple=as_tuple)

    def count_nonzero(self):
        return count_nonzero(self)

    def abs(self):
        return T(NP.abs(real_np.asarray(self)))

    def gather(self, dim, index):
        return gather(self, dim, index)

    def scatter(self, dim, index, src):
        return scatter(self, dim, index, src)

    def index_add_(self, dim, index, source):
        a = real_np.asarray(self)
        idx = [int(i) for i in real_np.asarray(index).reshape(-1)]
        src = real_np.asarray(source)
        for k, i in enumerate(idx):
            a[i] = arith('+', a[i], src[k])
        return self

    def tolist(self):
        return real_np.asarray(self).tolist()


def _idx(idx):
    if isinstance(idx, tuple):
        return tuple(_idx(i) for i in idx)
    if isinstance(idx, Tensor):
        a = real_np.asarray(idx)
        if a.ndim == 0:
            v = a.reshape(-1)[0]
            return bool(v) if _is_boolish(v) and not isinstance(v, SV) else (v if isinstance(v, SV) else v)
        return a.view(SArr) if a.dtype == object else a
    if isinstance(idx, list) and idx and all(isinstance(i, (int, real_np.integer, SV, Tensor)) for i in idx):
        return [int(i) for i in idx]
    return idx


# ---------------------------------------------------------------- constructors
def tensor(x, dtype=None, device=None, **kw):
    if isinstance(x, Tensor):
        if getattr(dtype, 'kind', None) in ('i', 'f') or dtype is int or dtype is float:
            return x.to(dtype).clone() if x.to(dtype) is x else x.to(dtype)      # dtype conversion (bool -> 0/1, ...)
        if dtype is bool_ or dtype is bool:
            return x.to(bool_)
        return x.clone()
    if isinstance(x, real_np.ndarray):
        return T(x.astype(object).copy() if x.dtype != bool else x.copy())
    if isinstance(x, (list, tuple)):
        def conv(v):
            if isinstance(v, Tensor):
                return real_np.asarray(v).tolist() if v.ndim else v.item_()
            if isinstance(v, (list, tuple)):
                return [conv(u) for u in v]
            return v
        a = real_np.array(conv(x), dtype=object)
        r = T(a)
    else:
        r = T(x)
    if dtype is bool_:
        return r.to(bool_)
    if isinstance(r, Tensor) and real_np.asarray(r).dtype == object:
        kind = getattr(dtype, 'kind', None)
        if kind in ('i', 'f'):
            r._dt = kind
        elif dtype is None:
            flat = real_np.asarray(r).reshape(-1)
            if flat.size and all(isinstance(v, (int, real_np.integer)) and not isinstance(v, (bool, real_np.bool_)) for v in flat):
                r._dt = 'i'          # torch.tensor of Python ints is int64
            elif flat.size and any(isinstance(v, (float, real_np.floating)) for v in flat):
                r._dt = 'f'
    return r


def as_tensor(x, dtype=None, device=None, **kw):
    if isinstance(x, Tensor) and dtype is None:
        return x                    # no copy when nothing has to change
    if isinstance(x, Tensor):
        return x.to(dtype)          # the same tensor when the dtype already matches
    return tensor(x, dtype=dtype)


def _shape(shape):
    if len(shape) == 1 and isinstance(shape[0], (tuple, list)):
        return tuple(int(s) for s in shape[0])
    return tuple(int(s) for s in shape)


def zeros(*shape, dtype=None, device=None, **kw):
    if dtype is bool_:
        return T(real_np.zeros(_shape(shape), dtype=bool))
    a = real_np.empty(_shape(shape), dtype=object)
    a[...] = 0j if getattr(dtype, 'kind', '') == 'c' else 0
    return _tag(T(a), {'c': None, 'i': 'i'}.get(getattr(dtype, 'kind', 'f'), 'f'))


def ones(*shape, dtype=None, device=None, **kw):
    if dtype is bool_:
        return T(real_np.ones(_shape(shape), dtype=bool))
    a = real_np.empty(_shape(shape), dtype=object)
    a[...] = (1 + 0j) if getattr(dtype, 'kind', '') == 'c' else 1
    return _tag(T(a), {'c': None, 'i': 'i'}.get(getattr(dtype, 'kind', 'f'), 'f'))


def full(shape, value, dtype=None, device=None, **kw):
    a = real_np.empty(_shape((shape,)), dtype=object)
    a[...] = value
    return T(a)


def zeros_like(a, dtype=None, device=None, **kw):
    return zeros(real_np.shape(a), dtype=dtype)


def ones_like(a, dtype=None, **kw):
    return ones(real_np.shape(a), dtype=dtype)


def eye(n, dtype=None, device=None, **kw):
    return T(real_np.eye(int(n), dtype=int).astype(object))


def arange(*a, device=None, dtype=None, **kw):
    return _tag(T(real_np.arange(*[int(x) for x in a]).astype(object)), 'i' if getattr(dtype, 'kind', 'i') == 'i' else 'f')


def randint(low, high=None, size=None, device=None, dtype=None, **kw):
    if size is None and isinstance(high, (tuple, list)):
        low, high, size = 0, low, high
    return _tag(T(real_np.asarray(NP.random.randint(low, high, _shape((size,))))), 'i')


def complex_(re, im):
    return T(real_np.frompyfunc(lambda a, b: SC(a, b).norm(), 2, 1)(_un(re), _un(im)))


def is_tensor(x):
    return isinstance(x, Tensor)


# ---------------------------------------------------------------- functions
def sum_(a, *args, **kw):
    kw = _kw(kw)
    axis = kw.pop('axis', args[0] if args else None)
    a = real_np.asarray(a)
    if a.size == 0:
        return T(real_np.zeros(a.shape, dtype=int).sum(axis).astype(object) if axis is not None else 0)
    r = NP.sum(a, axis=axis)
    return T(r)


def prod(a, dim=None, **kw):
    a = real_np.asarray(a)
    f = lambda v: _fold(v, '*', 1)
    if dim is None:
        return T(f(a.reshape(-1)))
    return T(real_np.apply_along_axis(lambda v: oarr(f(v)), dim, a))


def _fold(v, op, init):
    acc = init
    for x in v:
        acc = arith(op, acc, to_int(x) if _is_boolish(x) else x)
    return acc


def matmul(a, b):
    a, b = real_np.asarray(a), real_np.asarray(b)
    if a.size == 0 or b.size == 0:
        return T(real_np.zeros(real_np.matmul(real_np.zeros(a.shape), real_np.zeros(b.shape)).shape, dtype=int).astype(object))
    return T(real_np.matmul(a, b))


def _conj_scalar(v):
    if isinstance(v, SC):
        return SC(v.re, arith('-', 0, v.im)).norm()
    if isinstance(v, (complex, real_np.complexfloating)):
        return complex(v).conjugate()
    return v


def conj(a):
    return T(real_np.frompyfunc(_conj_scalar, 1, 1)(real_np.asarray(a))) if real_np.asarray(a).size else T(real_np.asarray(a))


def dot(a, b):
    """torch.dot: plain sum of products (no conjugation)"""
    a, b = real_np.asarray(a), real_np.asarray(b)
    tot = 0
    for x, y in zip(a.reshape(-1), b.reshape(-1)):
        tot = arith('+', tot, arith('*', x, y))
    return T(tot)


def vdot(a, b):
    """torch.vdot: the FIRST argument is complex-conjugated"""
    return dot(conj(a), b)


def div(a, b, rounding_mode=None):
    a, b = _un(a), _un(b)
    if rounding_mode == 'floor':
        f = lambda x, y: arith('//', x, y)
    elif rounding_mode == 'trunc':
        def f(x, y):
            q = arith('//', x, y)
            if isinstance(x, SV) and x.lo < 0:
                # truncation toward zero differs from floor for negative non-multiples
                r = arith('%', x, y)
                return ite(b_and(compare('<', x, 0), compare('!=', r, 0)), arith('+', q, 1), q)
            if not isinstance(x, SV) and x < 0:
                return -((-x) // y)
            return q
    else:
        f = lambda x, y: arith('/', x, y)
    return T(real_np.frompyfunc(f, 2, 1)(a, b))


def cat(ts, dim=0, **kw):
    arrs = [real_np.asarray(t) for t in ts]
    arrs = [a.astype(object) if a.dtype != object and any(b.dtype == object for b in arrs) else a for a in arrs]
    return T(real_np.concatenate(arrs, axis=dim))


concat = cat


def stack(ts, dim=0, **kw):
    arrs = [real_np.asarray(t) for t in ts]
    if any(a.dtype == object for a in arrs):
        arrs = [a.astype(object) for a in arrs]
    return T(real_np.stack(arrs, axis=dim))


def where(c, a, b):
    return T(NP.where(_un(c), _un(a), _un(b)))


def logical_and(a, b):
    return T(NP.logical_and(_un(a), _un(b)))


def logical_or(a, b):
    return T(NP.logical_or(_un(a), _un(b)))


def logical_not(a):
    return T(NP.logical_not(_un(a)))


def any_(a):
    return T(OR(real_np.asarray(a).reshape(-1)))


def all_(a):
    return T(AND(real_np.asarray(a).reshape(-1)))


def nonzero(a, as_tuple=False):
    a = real_np.asarray(a)
    conc = real_np.array([bool(to_bool(x)) for x in a.reshape(-1)], dtype=bool).reshape(a.shape)   # decides a shape: fork
    if as_tuple:
        return tuple(T(i.astype(object)) for i in real_np.nonzero(conc))
    return T(real_np.argwhere(conc).astype(object))


def count_nonzero(a):
    a = real_np.asarray(a)
    return T(_fold([ite(to_bool(x), 1, 0) for x in a.reshape(-1)], '+', 0))


def argmax(a, dim=None, **kw):
    a = real_np.asarray(a)

    def first_max(v):
        best = 0
        idx = 0
        cur = v[0]
        for i in range(1, len(v)):
            gt = compare('>', v[i], cur)
            idx = ite(gt, i, idx)
            cur = ite(gt, v[i], cur)
        return idx
    if dim is None or a.ndim == 1:
        return T(first_max([to_int(x) if _is_boolish(x) else x for x in a.reshape(-1)]))
    return T(real_np.apply_along_axis(lambda v: oarr(first_max(list(v))), dim, a))


def gather(a, dim, index):
    a = real_np.asarray(a)
    index = real_np.asarray(index)
    out = real_np.empty(index.shape, dtype=object)
    for pos in real_np.ndindex(*index.shape):
        i = index[pos]
        cands = range(a.shape[dim])
        val = None
        for c in cands:
            p = list(pos)
            p[dim] = c
            v = a[tuple(p)]
            val = v if val is None else ite(compare('==', i, c), v, val)
        out[pos] = val
    return T(out)


def scatter(a, dim, index, src):
    a = real_np.asarray(a).copy()
    if a.dtype != object:
        a = a.astype(object)
    index = real_np.asarray(index)
    src = real_np.asarray(src)
    for pos in real_np.ndindex(*index.shape):
        i = index[pos]
        v = src[pos] if src.ndim else src.reshape(-1)[0]
        for c in range(a.shape[dim]):
            p = list(pos)
            p[dim] = c
            a[tuple(p)] = ite(compare('==', i, c), v, a[tuple(p)])
    return T(a)


def roll(a, shifts, dims=None):
    return T(real_np.roll(real_np.asarray(a), shifts, axis=dims))


def cumsum(a, dim=0, **kw):
    a = real_np.asarray(a)
    kw = _kw(kw)
    dim = kw.get('axis', dim)
    out = a.copy().astype(object)
    n = a.shape[dim]
    for k in range(1, n):
        sl = [slice(None)] * a.ndim
        sp = [slice(None)] * a.ndim
        sl[dim], sp[dim] = k, k - 1
        out[tuple(sl)] = real_np.frompyfunc(lambda x, y: arith('+', to_int(x) if _is_boolish(x) else x, to_int(y) if _is_boolish(y) else y), 2, 1)(out[tuple(sp)], a[tuple(sl)])
    return T(out)


def repeat_interleave(a, n, dim=None):
    return T(real_np.repeat(real_np.asarray(a), n, axis=dim))


def masked_select(a, mask):
    a, mask = real_np.asarray(a), real_np.asarray(mask)
    conc = real_np.array([bool(to_bool(x)) for x in mask.reshape(-1)], dtype=bool).reshape(mask.shape)
    return T(a[conc])


def flipud(a):
    return T(real_np.asarray(a)[::-1])


def t(a):
    return T(real_np.asarray(a).T)


def abs_(a):
    return T(NP.abs(real_np.asarray(a)))


def allclose(a, b, **kw):
    a, b = real_np.asarray(a), real_np.asarray(b)
    return bool(AND(compare('==', x, y) for x, y in zip(real_np.broadcast_to(a, real_np.broadcast(a, b).shape).reshape(-1),
                                                     real_np.broadcast_to(b, real_np.broadcast(a, b).shape).reshape(-1))))


def unique(a, return_inverse=False, dim=None, **kw):
    r = NP.unique(real_np.asarray(a), return_inverse=return_inverse, axis=dim)
    if return_inverse:
        return T(real_np.asarray(r[0])), T(real_np.asarray(r[1]).astype(object))
    return T(real_np.asarray(r))


class _Linalg:
    @staticmethod
    def matrix_rank(m, **kw):
        a = real_np.asarray(m)
        if a.size == 0:
            return T(0)
        conc = [[fractions.Fraction(int(x) if not _is_boolish(x) else int(bool(x))) for x in row] for row in a]   # forks on symbolic entries
        rank = 0
        rows, cols = len(conc), len(conc[0])
        mat = [r[:] for r in conc]
        for c in range(cols):
            piv = next((r for r in range(rank, rows) if mat[r][c] != 0), None)
            if piv is None:
                continue
            mat[rank], mat[piv] = mat[piv], mat[rank]
            for r in range(rank + 1, rows):
                f = mat[r][c] / mat[rank][c]
                mat[r] = [x - f * y for x, y in zip(mat[r], mat[rank])]
            rank += 1
        return T(rank)


class _Jit:
    @staticmethod
    def script(fn=None, **kw):
        return fn if fn is not None else (lambda f: f)


class _NoGrad:
    def __enter__(self):
        return self

    def __exit__(self, *a):
        return False

    def __call__(self, f):
        return f


class TorchShim:
    Tensor = Tensor
    float = float32
    float32 = float32
    float64 = float64
    double = float64
    long = int64
    int = int64
    int64 = int64
    int32 = int32
    int8 = int8
    bool = bool_
    complex64 = complex64
    complex128 = complex128
    cfloat = complex64
    linalg = _Linalg()
    jit = _Jit()
    tensor = staticmethod(tensor)
    as_tensor = staticmethod(as_tensor)
    zeros = staticmethod(zeros)
    ones = staticmethod(ones)
    full = staticmethod(full)
    zeros_like = staticmethod(zeros_like)
    ones_like = staticmethod(ones_like)
    eye = staticmethod(eye)
    arange = staticmethod(arange)
    randint = staticmethod(randint)
    complex = staticmethod(complex_)
    is_tensor = staticmethod(is_tensor)
    sum = staticmethod(sum_)
    prod = staticmethod(prod)
    matmul = staticmethod(matmul)
    dot = staticmethod(dot)
    vdot = staticmethod(vdot)
    conj = staticmethod(conj)
    div = staticmethod(div)
    cat = staticmethod(cat)
    concat = staticmethod(cat)
    stack = staticmethod(stack)
    where = staticmethod(where)
    logical_and = staticmethod(logical_and)
    logical_or = staticmethod(logical_or)
    logical_not = staticmethod(logical_not)
    any = staticmethod(any_)
    all = staticmethod(all_)
    nonzero = staticmethod(nonzero)
    count_nonzero = staticmethod(count_nonzero)
    argmax = staticmethod(argmax)
    gather = staticmethod(gather)
    scatter = staticmethod(scatter)
    roll = staticmethod(roll)
    cumsum = staticmethod(cumsum)
    repeat_interleave = staticmethod(repeat_interleave)
    masked_select = staticmethod(masked_select)
    flipud = staticmethod(flipud)
    t = staticmethod(t)
    abs = staticmethod(abs_)
    allclose = staticmethod(allclose)
    unique = staticmethod(unique)
    no_grad = _NoGrad

    def device(self, *a, **k):
        return CPU

    def manual_seed(self, s):
        pass

    def __getattr__(self, name):
        raise NeedConcrete('torch.%s has no stand-in' % name)


TORCH = TorchShim()
