"""Predicated (if-converted) execution of the @njit kernels from their AST.

A kernel is the FunctionDef node of the *current* source text.  Loops over shapes are unrolled (shapes are
concrete), `if` on symbolic conditions executes both branches under guards and every store writes
ite(guard, new, old) into the same array object, so in-place kernels mutate their caller's arrays exactly as
the numba-compiled ones do.  assert / raise become events (condition, exception type, line).
"""
import ast
import builtins
import itertools
import numpy as np
from .values import (SV, SDyad, SC, NeedConcrete, STORE, is_sym, to_int, to_bool, bounds, compare, ite, merge,
                     b_and, b_or, b_not, arith)


class Event:
    def __init__(self, cond, kind, where, msg=''):
        self.cond, self.kind, self.where, self.msg = cond, kind, where, msg

    def __repr__(self):
        return 'Event(%s at %s:%s)' % (self.kind, self.where[0], self.where[1])


class Frame:
    def __init__(self, fn, env):
        self.fn = fn
        self.env = env
        self.ret = False      # returned-flag (bool or SV)
        self.retval = None
        self.loops = []       # stack of [brk, cont]
        self.args_arrays = [a for a in env.values() if isinstance(a, np.ndarray) and a.size]     # the caller's arrays


_fork_cache = {}


def must_fork(ifnode):
    """an `if` whose body changes a Python-level structure (list.append) cannot be merged: fork it"""
    k = id(ifnode)
    if k not in _fork_cache:
        _fork_cache[k] = any(isinstance(n, ast.Call) and isinstance(n.func, ast.Attribute) and n.func.attr == 'append'
                             for n in ast.walk(ifnode))
    return _fork_cache[k]


class Kernel:
    """callable stand-in for an @njit function"""
    def __init__(self, name, node, globs, py_func, interp):
        self.name, self.node, self.globals, self.py_func, self.interp = name, node, globs, py_func, interp
        self.__name__ = name
        self.args = [a.arg for a in node.args.args]
        self.defaults = node.args.defaults
        self.calls = 0

    def __call__(self, *a, **k):
        self.calls += 1
        return self.interp.call(self, a, k)


WHILE_UNROLL = 1
WHILE_UNROLL_SCAN = 6


class Interp:
    def __init__(self):
        self.events = []          # all events of the current harness run (cleared by the explorer)
        self.assumed = []         # residual assumptions (while-loop exit)
        self.forked_sites = set()
        self.kernels_used = {}
        self.steps = 0
        self._reset_call()

    def _reset_call(self):
        self.guard_stack = [True]
        self.dead = False
        self.frames = []

    def reset_run(self):
        self.events = []
        self.assumed = []
        self._reset_call()

    # guard of the current statement
    def guard(self):
        g = self.guard_stack[-1]
        f = self.frames[-1]
        g = b_and(g, b_not(f.ret))
        for (brk, cont) in f.loops[-1:]:
            g = b_and(g, b_not(b_or(brk, cont)))
        g = b_and(g, b_not(self.dead))
        return g

    def call(self, k, args, kwargs):
        top = not self.frames
        if top:
            self._reset_call()
        self.kernels_used[k.name] = self.kernels_used.get(k.name, 0) + 1
        env = {}
        nd = len(k.defaults)
        if len(args) > len(k.args):
            raise TypeError('%s() takes %d positional arguments but %d were given' % (k.name, len(k.args), len(args)))
        for i, name in enumerate(k.args):
            if i < len(args):
                env[name] = args[i]
            elif name in kwargs:
                env[name] = kwargs[name]
            else:
                j = i - (len(k.args) - nd)
                if j < 0:
                    raise TypeError('%s() missing argument %s' % (k.name, name))
                env[name] = ast.literal_eval(k.defaults[j])
        f = Frame(k, env)
        self.frames.append(f)
        saved = self.guard_stack
        self.guard_stack = [self.guard_stack[-1] if top else self.guard_at_call]
        try:
            self.exec_block(k.node.body)
        finally:
            self.frames.pop()
            self.guard_stack = saved
        rv = f.retval
        if top:
            rv = _wrap_out(rv)
            self._reset_call_keep_events()
        return rv

    def _reset_call_keep_events(self):
        self.guard_stack = [True]
        self.frames = []
        # self.dead stays readable until the next top-level call (harnesses may inspect events instead)

    @property
    def guard_at_call(self):
        return self._call_guard

    # ---- statements
    def exec_block(self, stmts):
        for s in stmts:
            g = self.guard()
            if g is False:
                return
            self.steps += 1
            getattr(self, 'st_' + type(s).__name__)(s, g)

    def st_Expr(self, s, g):
        if isinstance(s.value, ast.Constant):
            return
        self.ev(s.value)

    def st_Pass(self, s, g):
        pass

    def _event(self, cond, kind, lineno, msg=''):
        if cond is False:
            return
        self.events.append(Event(cond, kind, (self.frames[-1].fn.name, lineno), msg))
        self.dead = b_or(self.dead, cond)

    def st_Assert(self, s, g):
        c = to_bool(self.ev(s.test))
        self._event(b_and(g, b_not(c)), 'AssertionError', s.lineno)

    def st_Raise(self, s, g):
        name = s.exc.func.id if isinstance(s.exc, ast.Call) else s.exc.id
        self._event(g, name, s.lineno)

    def st_Return(self, s, g):
        f = self.frames[-1]
        v = self.ev(s.value) if s.value is not None else None
        if g is not True and g is not False and self._returns_view_of_argument(v, f):
            # returning (a view of) a caller's array under a condition on the data: merging would build a fresh array and
            # lose the aliasing the caller can observe, so the path explorer decides the condition instead
            self.forked_sites.add((f.fn.name, s.lineno))
            if not bool(g):
                return
            g = True
        if f.ret is False and g is True:
            f.retval = v
        elif f.retval is None and f.ret is False:
            f.retval = v
        else:
            f.retval = merge(g, v, f.retval)
        f.ret = b_or(f.ret, g)

    def _returns_view_of_argument(self, v, f):
        vals = v if isinstance(v, tuple) else (v,)
        for x in vals:
            if isinstance(x, np.ndarray) and x.size and any(np.shares_memory(x, a) for a in f.args_arrays):
                return True
        return False

    def st_Break(self, s, g):
        l = self.frames[-1].loops[-1]
        l[0] = b_or(l[0], g)

    def st_Continue(self, s, g):
        l = self.frames[-1].loops[-1]
        l[1] = b_or(l[1], g)

    def st_Assign(self, s, g):
        v = self.ev(s.value)
        for t in s.targets:
            self.assign(t, v, g)

    def st_AugAssign(self, s, g):
        if isinstance(s.target, ast.Subscript):
            cur = self.ev(ast.Subscript(s.target.value, s.target.slice, ast.Load()))
        else:
            cur = self.ev(ast.Name(s.target.id, ast.Load()))
        v = self.binop(s.op, cur, self.ev(s.value))
        self.assign(s.target, v, g)

    def assign(self, t, v, g):
        env = self.frames[-1].env
        if isinstance(t, ast.Name):
            if g is True or t.id not in env:
                env[t.id] = v
            else:
                env[t.id] = merge(g, v, env[t.id])
        elif isinstance(t, ast.Tuple):
            vs = list(v)
            if len(vs) != len(t.elts):
                raise ValueError('unpack mismatch')
            for tt, vv in zip(t.elts, vs):
                self.assign(tt, vv, g)
        elif isinstance(t, ast.Subscript):
            a = self.ev(t.value)
            idx = self.ev_index(t.slice)
            self.setitem(a, idx, v, g)
        else:
            raise NeedConcrete('assignment target ' + ast.dump(t))

    def st_If(self, s, g):
        c = to_bool(self.ev(s.test))
        if c is not True and c is not False and must_fork(s):
            self.forked_sites.add((self.frames[-1].fn.name, s.lineno))
            c = bool(c)      # structural effect inside: the path explorer decides
        if c is True:
            return self.exec_block(s.body)
        if c is False:
            return self.exec_block(s.orelse)
        base = self.guard_stack[-1]
        self.guard_stack.append(b_and(base, c))
        self.exec_block(s.body)
        self.guard_stack.pop()
        if s.orelse:
            self.guard_stack.append(b_and(base, b_not(c)))
            self.exec_block(s.orelse)
            self.guard_stack.pop()

    def st_For(self, s, g):
        it = s.iter
        if not (isinstance(it, ast.Call) and isinstance(it.func, ast.Name) and it.func.id == 'range'):
            raise NeedConcrete('only range loops are supported in kernels (line %d)' % s.lineno)
        args = [self.ev(a) for a in it.args]
        if len(args) == 1:
            a0, a1, st = 0, args[0], 1
        elif len(args) == 2:
            a0, a1, st = args[0], args[1], 1
        else:
            a0, a1, st = args
        if is_sym(st):
            raise NeedConcrete('symbolic loop step')
        f = self.frames[-1]
        f.loops.append([False, False])
        base = self.guard_stack[-1]
        if st > 0:
            rng = range(bounds(to_int(a0))[0], bounds(to_int(a1))[1], st)
        else:
            rng = range(bounds(to_int(a0))[1], bounds(to_int(a1))[0], st)
        if not isinstance(s.target, ast.Name):
            raise NeedConcrete('loop target')
        MISSING = object()
        post = f.env.get(s.target.id, MISSING)
        for k in rng:
            inr = b_and(compare('>=' if st > 0 else '<=', k, a0), compare('<' if st > 0 else '>', k, a1))
            if inr is False:
                continue
            f.loops[-1][1] = False
            self.guard_stack.append(b_and(base, inr))
            gg = self.guard()
            if gg is False:
                self.guard_stack.pop()
                if f.loops[-1][0] is True or f.ret is True or self.dead is True:
                    break
                continue
            post = k if (post is MISSING or gg is True) else merge(gg, k, post)
            f.env[s.target.id] = k   # inside the body (which runs under gg) the loop variable IS k
            self.exec_block(s.body)
            self.guard_stack.pop()
        if post is not MISSING:
            f.env[s.target.id] = post
        f.loops.pop()
        if s.orelse:
            raise NeedConcrete('for-else')

    def st_While(self, s, g):
        # bounded unrolling; the residual loop condition is *assumed* false (recorded as an assumption)
        f = self.frames[-1]
        f.loops.append([False, False])
        depth = 0
        # rejection loops (a random draw in the body) are unrolled once, the redraw assumed accepted; deterministic scans
        # (while i < N and cond(i): i += 1) are unrolled WHILE_UNROLL_SCAN times; the residual condition is an assumption
        draws = any(isinstance(n, ast.Attribute) and n.attr in ('randint', 'random', 'choice', 'rand') for n in ast.walk(s))
        for _ in range(WHILE_UNROLL if draws else WHILE_UNROLL_SCAN):
            c = to_bool(self.ev(s.test))
            if c is False:
                break
            f.loops[-1][1] = False
            self.guard_stack.append(b_and(self.guard_stack[-1], c))
            depth += 1
            self.exec_block(s.body)
        else:
            c = to_bool(self.ev(s.test))
            if c is not False:
                self.assumed.append(('while-exit', (self.frames[-1].fn.name, s.lineno),
                                     b_or(b_not(self.guard()), b_not(c))))
        for _ in range(depth):
            self.guard_stack.pop()
        f.loops.pop()

    # ---- expressions
    def ev(self, n):
        return getattr(self, 'ex_' + type(n).__name__)(n)

    def ex_Constant(self, n):
        return n.value

    def ex_Name(self, n):
        env = self.frames[-1].env
        if n.id in env:
            return env[n.id]
        g = self.frames[-1].fn.globals
        if n.id in g:
            return g[n.id]
        if hasattr(builtins, n.id):
            return getattr(builtins, n.id)
        raise NameError("name '%s' is not defined" % n.id)

    def ex_Tuple(self, n):
        return tuple(self.ev(e) for e in n.elts)

    def ex_List(self, n):
        return [self.ev(e) for e in n.elts]

    def ex_Attribute(self, n):
        v = self.ev(n.value)
        return getattr(v, n.attr)

    def ex_UnaryOp(self, n):
        v = self.ev(n.operand)
        if isinstance(n.op, ast.Not):
            return b_not(v)
        if isinstance(n.op, ast.USub):
            return -v
        if isinstance(n.op, ast.UAdd):
            return v
        if isinstance(n.op, ast.Invert):
            if isinstance(v, np.ndarray) and v.dtype == object:
                return np.frompyfunc(b_not, 1, 1)(v)
            return ~v
        raise NeedConcrete('unary op')

    def ex_BoolOp(self, n):
        # short-circuit semantics: a later operand is evaluated only under the guard that the earlier ones did not decide
        # (`i < N and f(a[i])` must not index a[N]); operands are side-effect free, so the values are merged
        is_and = isinstance(n.op, ast.And)
        r = to_bool(self.ev(n.values[0]))
        for v in n.values[1:]:
            if (r is False and is_and) or (r is True and not is_and):
                return r
            if r is True or r is False:
                r = to_bool(self.ev(v))
                continue
            self.guard_stack.append(b_and(self.guard_stack[-1], r if is_and else b_not(r)))
            try:
                nxt = to_bool(self.ev(v))
            finally:
                self.guard_stack.pop()
            r = b_and(r, nxt) if is_and else b_or(r, nxt)
        return r

    def ex_IfExp(self, n):
        c = to_bool(self.ev(n.test))
        if c is True:
            return self.ev(n.body)
        if c is False:
            return self.ev(n.orelse)
        return merge(c, self.ev(n.body), self.ev(n.orelse))

    _CMP = {ast.Eq: '==', ast.NotEq: '!=', ast.Lt: '<', ast.LtE: '<=', ast.Gt: '>', ast.GtE: '>='}

    def ex_Compare(self, n):
        left = self.ev(n.left)
        res = True
        for op, c in zip(n.ops, n.comparators):
            right = self.ev(c)
            if type(op) not in self._CMP:
                raise NeedConcrete('comparison operator')
            o = self._CMP[type(op)]
            if isinstance(left, np.ndarray) or isinstance(right, np.ndarray):
                r = np.frompyfunc(lambda a, b: compare(o, a, b), 2, 1)(left, right)
                if isinstance(r, np.ndarray) and r.dtype == object and r.size and all(
                        isinstance(x, (bool, np.bool_)) for x in r.reshape(-1)):
                    r = r.astype(bool)
                if len(n.ops) == 1:
                    return r
                raise NeedConcrete('chained array comparison')
            r = compare(o, left, right)
            res = b_and(res, r)
            left = right
        return res

    def binop(self, op, a, b):
        t = type(op)
        if t is ast.Add:
            return a + b
        if t is ast.Sub:
            return a - b
        if t is ast.Mult:
            return a * b
        if t is ast.Mod:
            return a % b
        if t is ast.FloorDiv:
            return a // b
        if t is ast.Pow:
            return a ** b
        if t is ast.Div:
            return a / b
        raise NeedConcrete('binary operator %s' % t.__name__)

    def ex_BinOp(self, n):
        return self.binop(n.op, self.ev(n.left), self.ev(n.right))

    def ex_Call(self, n):
        kw = {k.arg: self.ev(k.value) for k in n.keywords}
        if isinstance(n.func, ast.Attribute):
            recv = self.ev(n.func.value)
            args = [self.ev(a) for a in n.args]
            name = n.func.attr
            if isinstance(recv, np.ndarray):
                if name == 'all' and not args and not kw:
                    r = True
                    for x in recv.reshape(-1):
                        r = b_and(r, x)
                    return r
                if name == 'any' and not args and not kw:
                    r = False
                    for x in recv.reshape(-1):
                        r = b_or(r, x)
                    return r
            if isinstance(recv, list) and name == 'append':
                if self.guard() is not True:
                    raise NeedConcrete('list.append under a symbolic guard')
                recv.append(args[0])
                return None
            fn = getattr(recv, name)
        else:
            fn = self.ev(n.func)
            args = [self.ev(a) for a in n.args]
        if isinstance(fn, Kernel):
            self._call_guard = self.guard()
        return fn(*args, **kw)

    def ev_index(self, sl):
        if isinstance(sl, ast.Tuple):
            return tuple(self.ev_index(e) for e in sl.elts)
        if isinstance(sl, ast.Slice):
            return slice(*(None if x is None else self.ev(x) for x in (sl.lower, sl.upper, sl.step)))
        return self.ev(sl)

    def ex_Subscript(self, n):
        a = self.ev(n.value)
        idx = self.ev_index(n.slice)
        return self.getitem(a, idx)

    # ---- indexing with symbolic scalars
    @staticmethod
    def _is_symmask(i):
        return isinstance(i, np.ndarray) and i.dtype == object and i.size > 0 and all(
            isinstance(x, (bool, np.bool_)) or (is_sym(x) and x.kind == 'b') for x in i.reshape(-1))

    @classmethod
    def _concretise_mask(cls, i):
        # boolean mask with symbolic entries decides a *shape*: concretise (forks the path)
        return np.array([bool(x) for x in i.reshape(-1)], dtype=bool).reshape(i.shape)

    def sym_positions(self, idx):
        t = idx if isinstance(idx, tuple) else (idx,)
        return t, [i for i, x in enumerate(t) if is_sym(x)]

    def candidates(self, a, t, pos):
        out = []
        for i in pos:
            n = a.shape[i]
            x = t[i].as_int()
            lo, hi = x.lo, x.hi
            out.append([v for v in range(max(lo, -n), min(hi, n - 1) + 1)])
            if lo < -n or hi > n - 1:
                oob = b_or(compare('<', x, -n), compare('>', x, n - 1))
                self._event(b_and(self.guard(), oob), 'IndexOutOfBounds', 0)
        return out

    def _norm_idx(self, idx):
        if isinstance(idx, tuple):
            return tuple(self._norm_idx(i) for i in idx)
        if self._is_symmask(idx):
            return self._concretise_mask(idx)
        if isinstance(idx, np.ndarray) and idx.dtype == object and not any(is_sym(x) for x in idx.reshape(-1)):
            return np.asarray(idx).astype(int) if idx.size else np.zeros(idx.shape, dtype=int)
        return idx

    def getitem(self, a, idx):
        if isinstance(a, (tuple, list)):
            return a[idx]
        idx = self._norm_idx(idx)
        if isinstance(idx, np.ndarray) and idx.dtype == object:      # index array with symbolic entries
            rows = [self.getitem(a, x) for x in idx]
            return np.stack([np.asarray(r, dtype=object) for r in rows])
        t, pos = self.sym_positions(idx)
        if not pos:
            try:
                return np.asarray(a)[idx] if isinstance(a, np.ndarray) else a[idx]
            except IndexError:
                # a concrete index outside the array under a guard that is not known to hold (predicated execution
                # reaches statements of branches the path may not take): an event under that guard, not a crash
                if self.guard() is True:
                    raise
                self._event(self.guard(), 'IndexOutOfBounds', 0)
                return 0
        cands = self.candidates(a, t, pos)
        res = None
        for combo in itertools.product(*cands):
            tt = list(t)
            c = True
            for i, v in zip(pos, combo):
                tt[i] = v
                c = b_and(c, compare('==', t[i], v))
            val = np.asarray(a)[tuple(tt)]
            res = val if res is None else merge(c, val, res)
        return res

    def setitem(self, a, idx, v, g):
        idx = self._norm_idx(idx)
        if isinstance(idx, np.ndarray) and idx.dtype == object:
            v = np.asarray(v, dtype=object)
            for k, x in enumerate(idx):
                self.setitem(a, x, v[k], g)
            return
        t, pos = self.sym_positions(idx)
        base = np.asarray(a) if isinstance(a, np.ndarray) else a
        if not pos:
            if g is True:
                base[idx] = v
            else:
                try:
                    old = base[idx]
                except IndexError:
                    self._event(g, 'IndexOutOfBounds', 0)
                    return
                if isinstance(old, np.ndarray):
                    base[idx] = merge(g, v, old)
                else:
                    base[idx] = ite(g, v, old)
            return
        cands = self.candidates(a, t, pos)
        for combo in itertools.product(*cands):
            tt = list(t)
            c = g
            for i, vv in zip(pos, combo):
                tt[i] = vv
                c = b_and(c, compare('==', t[i], vv))
            self.setitem(a, tuple(tt), v, c)


def _wrap_out(v):
    from .shim_numpy import S
    if isinstance(v, tuple):
        return tuple(_wrap_out(x) for x in v)
    if isinstance(v, np.ndarray):
        return S(v)
    return v
