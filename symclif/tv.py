"""Translator validation: every encoded kernel is executed by the interpreter on concrete inputs and compared with
the real numba-compiled function (same source text) -- outputs and in-place effects on the arguments."""
import os
import random
import sys
import numpy as np

from . import interp as _interp
from .loader import Package
from .values import SV, SDyad, SC


def _rand_bits(rnd, shape):
    return np.array([rnd.randint(0, 1) for _ in range(int(np.prod(shape)))], dtype=np.int64).reshape(shape)


def _rand_tableau(rnd, N):
    """random valid tableau (rows i, i+N anticommute) by random rotations of the identity tableau"""
    gs = np.zeros((2 * N, 2 * N), dtype=np.int64)
    for i in range(N):
        gs[i, 2 * i + 1] = 1
        gs[N + i, 2 * i] = 1
    for _ in range(3 * N):
        g = _rand_bits(rnd, 2 * N)
        for j in range(2 * N):
            a = sum(g[2 * k + 1] * gs[j, 2 * k] - g[2 * k] * gs[j, 2 * k + 1] for k in range(N)) % 2
            if a:
                gs[j] = (gs[j] + g) % 2
    ps = 2 * _rand_bits(rnd, 2 * N)
    return gs, ps


def _anti_pair(rnd, N):
    while True:
        a, b = _rand_bits(rnd, 2 * N), _rand_bits(rnd, 2 * N)
        if sum(a[2 * k + 1] * b[2 * k] - a[2 * k] * b[2 * k + 1] for k in range(N)) % 2:
            return (a, b)


def _gens(rnd):
    N = rnd.randint(1, 3)
    L = rnd.randint(1, 3)
    g = lambda: _rand_bits(rnd, 2 * N)
    gs = lambda l=L: _rand_bits(rnd, (l, 2 * N))
    ps = lambda l=L: np.array([rnd.randint(0, 3) for _ in range(l)], dtype=np.int64)
    tab = lambda: _rand_tableau(rnd, N)
    r = rnd.randint(0, N)

    def herm(l=L):
        return 2 * _rand_bits(rnd, l)
    T = {
        'front': lambda: (g(),),
        'condense': lambda: (g(),),
        'p0': lambda: (g(),),
        'acq': lambda: (g(), g()),
        'ipow': lambda: (g(), g()),
        'ps0': lambda: (gs(),),
        'acq_mat': lambda: (gs(),),
        'batch_dot': lambda: (gs(), ps(), np.array([complex(rnd.randint(-2, 2), rnd.randint(-2, 2)) for _ in range(L)]),
                              gs(2), ps(2), np.array([complex(rnd.randint(-2, 2), rnd.randint(-2, 2)) for _ in range(2)])),
        'pauli_tokenize': lambda: (gs(), ps()),
        'pauli_combine': lambda: (_rand_bits(rnd, (2, L)), gs(), ps()),
        'pauli_transform': lambda: (gs(), ps(), _rand_bits(rnd, (2 * N, 2 * N)), herm(2 * N)),
        'clifford_rotate': lambda: (g(), 2 * rnd.randint(0, 1), gs(), ps()),
        'clifford_rotate_signless': lambda: (g(), gs()),
        'pauli_is_onsite': lambda: (g(), rnd.randint(0, N - 1)),
        'pauli_diagonalize1': lambda: (g(), rnd.randint(0, N - 1)),
        'pauli_diagonalize2': lambda: _anti_pair(rnd, N) + (rnd.randint(0, N - 1),),
        'map_to_state': lambda: (_rand_bits(rnd, (2 * N, 2 * N)), herm(2 * N)),
        'state_to_map': lambda: (_rand_bits(rnd, (2 * N, 2 * N)), herm(2 * N)),
        'stabilizer_project': lambda: (tab()[0], gs(), r),
        'stabilizer_expect': lambda: tab() + (gs(), herm(), r),
        'stabilizer_entropy': lambda: (_rand_bits(rnd, (rnd.randint(1, N), 2 * N)), _rand_bits(rnd, N).astype(bool)),
        'z2rank': lambda: (_rand_bits(rnd, (rnd.randint(1, 4), rnd.randint(1, 4))),),
        'z2inv': lambda: (_rand_bits(rnd, (N + 1, N + 1)),),
        'aggregate': lambda: (np.array([complex(rnd.randint(-2, 2), rnd.randint(-2, 2)) for _ in range(4)]),
                              np.array([rnd.randint(0, 2) for _ in range(4)]), 3),
    }
    return T


# kernels whose result depends on coins are compared on their deterministic inputs only (no coin is drawn):
def _det_measure(rnd, name):
    N = rnd.randint(1, 3)
    r = rnd.randint(0, N)
    gs, ps = _rand_tableau(rnd, N)
    # observables taken from the active stabilizer group -> deterministic branch; needs r < N
    if r == N:
        r = N - 1
    sel = [rnd.randint(0, 1) for _ in range(N)]
    g = np.zeros(2 * N, dtype=np.int64)
    for a in range(r, N):
        if sel[a]:
            g = (g + gs[a]) % 2
    go = g.reshape(1, -1)
    po = 2 * _rand_bits(rnd, 1)
    if name == 'stabilizer_postselection':
        return (gs, ps, go[0], int(po[0]))
    return (gs, ps, go, po, r)


def _norm(x):
    if isinstance(x, tuple):
        return tuple(_norm(v) for v in x)
    if isinstance(x, list):
        return [_norm(v) for v in x]
    if isinstance(x, np.ndarray):
        if x.dtype == object:
            flat = [(_norm(v)) for v in x.reshape(-1)]
            try:
                return np.array(flat, dtype=complex).reshape(x.shape)
            except Exception:
                return x
        return x.astype(complex) if x.dtype.kind in 'iufcb' else x
    if isinstance(x, (bool, np.bool_)):
        return complex(int(x))
    if isinstance(x, (int, float, complex, np.number)):
        return complex(x)
    return x


def _same(a, b):
    a, b = _norm(a), _norm(b)
    if isinstance(a, (tuple, list)) or isinstance(b, (tuple, list)):
        return isinstance(a, (tuple, list)) and isinstance(b, (tuple, list)) and len(a) == len(b) and all(_same(x, y) for x, y in zip(a, b))
    if isinstance(a, np.ndarray) or isinstance(b, np.ndarray):
        a, b = np.asarray(a), np.asarray(b)
        return a.shape == b.shape and bool(np.all(a == b))
    return a == b


def validate(names, seed, n):
    root = os.environ.get('PYCLIFFORD_ROOT', '/repo')
    if root not in sys.path:
        sys.path.insert(0, root)
    import warnings
    warnings.filterwarnings('ignore')
    import importlib
    real_utils = importlib.import_module('pyclifford.utils')
    pk = Package('pyclifford')
    sym_utils = pk.get('utils')
    rnd = random.Random(seed)
    runs = 0
    mism = []
    done = []
    for name in names:
        real = getattr(real_utils, name)
        sym = getattr(sym_utils, name)
        if not isinstance(sym, _interp.Kernel):
            mism.append('%s is not an @njit kernel any more' % name)
            continue
        for _ in range(n):
            if name in ('stabilizer_measure', 'stabilizer_projection_trace', 'stabilizer_postselection'):
                args = _det_measure(rnd, name)
            else:
                T = _gens(rnd)
                if name not in T:
                    mism.append('no input generator for kernel %s' % name)
                    break
                args = T[name]()
            a1 = tuple(a.copy() if isinstance(a, np.ndarray) else a for a in args)
            a2 = tuple((a.astype(object) if a.dtype != bool else a.copy()) if isinstance(a, np.ndarray) else a for a in args)
            try:
                out1 = real(*a1)
                e1 = None
            except Exception as e:
                out1, e1 = None, type(e).__name__
            pk.interp.reset_run()
            try:
                out2 = sym(*a2)
                evs = [ev for ev in pk.interp.events if ev.cond is True]
                e2 = evs[0].kind if evs else None
            except Exception as e:
                out2, e2 = None, type(e).__name__
            runs += 1
            if e1 != e2:
                mism.append('%s%r: real raised %s, encoding raised %s' % (name, _short(args), e1, e2))
                break
            if e1 is None:
                if name == 'stabilizer_measure':     # log2prob etc. compare fine; coins never drawn here
                    pass
                if not _same(out1, out2) or not _same(a1, a2):
                    mism.append('%s%r: real -> %r, encoding -> %r' % (name, _short(args), _short(out1), _short(out2)))
                    break
        done.append(name)
    return dict(runs=runs, mismatches=mism, kernels=done)


def _short(x):
    s = repr(x)
    return s if len(s) < 400 else s[:400] + '...'
