"""Path explorer (decision-prefix replay) + symbolic / concrete harness environments + job runner."""
import json
import os
import subprocess
import sys
import time
import traceback
import numpy as real_np
import z3
from . import values as V
from .values import (SV, SDyad, SC, STORE, NeedConcrete, is_sym, compare, to_bool, bexpr, b_and, b_or, b_not, AND, OR,
                     model_value)
from .shim_numpy import S, SArr, NP

VERIF = os.path.dirname(os.path.dirname(os.path.abspath(__file__)))


class Infeasible(BaseException):
    """the current decision prefix has no model (path dies silently)"""


class PathLimit(BaseException):
    pass


# ------------------------------------------------------------------ path context
class Ctx:
    cur = None

    def __init__(self, prefix):
        self.prefix = list(prefix)
        self.pos = 0
        self.pc = []            # z3 constraints: assumptions and decisions, in program order
        self.new = []           # alternative prefixes discovered on this path
        self.solver = z3.SolverFor('QF_BV')
        self.nside = 0
        self.nq = 0
        self.tq = 0.0

    def _sync(self):
        side = STORE.side
        if len(side) > self.nside:
            self.solver.add(*side[self.nside:])
            self.nside = len(side)

    def feasible(self, extra):
        self._sync()
        self.solver.push()
        self.solver.add(extra)
        self.nq += 1
        t = time.time()
        r = self.solver.check()
        self.tq += time.time() - t
        self.solver.pop()
        if str(r) == 'unknown':
            raise NeedConcrete('feasibility query returned unknown')
        return str(r) == 'sat'

    def commit(self, e):
        self.pc.append(e)
        self.solver.add(e)

    def assume(self, cond):
        c = to_bool(cond)
        if c is True:
            return
        if c is False or not self.feasible(c.e):
            raise Infeasible()
        self.commit(c.e)

    def decide(self, cond):
        """cond: bool SV -> concrete bool; the other feasible value is queued"""
        if self.pos < len(self.prefix):
            v = self.prefix[self.pos]
        else:
            t = self.feasible(cond.e)
            f = self.feasible(z3.Not(cond.e))
            if t and f:
                v = True
                self.new.append(self.prefix[:self.pos] + [False])
            elif t:
                v = True
            elif f:
                v = False
            else:
                raise Infeasible()
            self.prefix.append(v)
        self.pos += 1
        self.commit(cond.e if v else z3.Not(cond.e))
        return v

    def decide_int(self, sv):
        sv = sv.as_int()
        for v in range(sv.lo, sv.hi + 1):
            c = compare('==', sv, v)
            if c is True:
                return v
            if c is False:
                continue
            if v == sv.hi:
                self.commit(bexpr(c))
                return v
            if self.decide(c):
                return v
        raise Infeasible()


def _sv_bool(self):
    c = to_bool(self)
    if not is_sym(c):
        return c
    if Ctx.cur is None:
        raise NeedConcrete('bool() of a symbolic value outside a path')
    return Ctx.cur.decide(c)


def _sv_index(self):
    if Ctx.cur is None:
        raise NeedConcrete('index() of a symbolic value outside a path')
    return Ctx.cur.decide_int(self)


V._HOOKS['bool'] = _sv_bool
V._HOOKS['index'] = _sv_index


# ------------------------------------------------------------------ environments
class Outcome:
    """result of env.run(thunk): value, and whether / which exception was raised (symbolic or concrete)"""
    def __init__(self, value, raised, kinds):
        self.value, self.raised, self.kinds = value, raised, kinds

    def raised_kind(self, *names):
        return OR(c for k, c in self.kinds if k in names)

    def raised_other(self, *names):
        return OR(c for k, c in self.kinds if k not in names)


class BaseEnv:
    def __init__(self):
        self.goals = []
        self.tags = {}
        self.observed = {}
        self.notes = []

    def goal(self, name, cond):
        self.goals.append((name, cond))

    def tag(self, name, cond):
        self.tags[name] = cond

    def observe(self, name, value):
        self.observed[name] = value

    def phases(self, name, shape):
        return self.ints(name, shape, 0, 3)

    def signs(self, name, shape):
        """even phases 0 / 2"""
        return 2 * self.bits(name, shape)


class SymEnv(BaseEnv):
    symbolic = True

    def __init__(self, ctx, packages):
        super().__init__()
        self.ctx = ctx
        self.pk = packages
        self.np = NP
        self.assumptions = []

    # packages: dict name -> loader.Package
    def mod(self, sub, pkg='pyclifford'):
        return self.pk[pkg].get(sub)

    def bits(self, name, shape):
        return S(V.sym_array(name, shape, 0, 1))

    def ints(self, name, shape, lo, hi):
        return S(V.sym_array(name, shape, lo, hi))

    def const(self, x):
        return NP.array(x)

    def assume(self, cond, label=''):
        self.assumptions.append(label)
        self.ctx.assume(cond)

    def coins(self):
        return list(STORE.coins)

    def seed(self, s):
        pass

    def reseed(self):
        """restart the coin stream: the next draws are IDENTIFIED with the draws after the previous reseed()"""
        coins = STORE.coins
        prev = getattr(self, '_reseed_mark', None)
        if prev is not None:
            self._streams.append(coins[prev:])
        else:
            self._streams = []
        self._reseed_mark = len(coins)

    def identify_streams(self):
        """assumption: corresponding draws of all streams opened by reseed() are equal (same RNG seed)"""
        coins = STORE.coins
        streams = list(self._streams) + [coins[self._reseed_mark:]]
        conds = []
        for s in streams[1:]:
            for a, b in zip(streams[0], s):
                conds.append(compare('==', a, b))
        return AND(conds)

    def run(self, thunk):
        interps = [p.interp for p in self.pk.values()]
        marks = [len(i.events) for i in interps]
        try:
            val = thunk()
            native = None
        except Exception as e:          # Infeasible / NeedConcrete are BaseException-derived on purpose
            val = None
            native = e
        kinds = []
        for i, m in zip(interps, marks):
            for ev in i.events[m:]:
                kinds.append((ev.kind, ev.cond))
        if native is not None:
            kinds.append((type(native).__name__, True))
            self.notes.append('native %s: %s' % (type(native).__name__, native))
        return Outcome(val, OR(c for _, c in kinds), kinds)


class ConcreteEnv(BaseEnv):
    """same harness code over the real build: inputs come from a replay record, goals evaluate to Python bools"""
    symbolic = False

    def __init__(self, inputs, real_modules):
        super().__init__()
        self.inputs = inputs
        self.real = real_modules
        self.np = real_np
        self.assumption_failed = []

    def mod(self, sub, pkg='pyclifford'):
        return self.real(pkg, sub)

    def bits(self, name, shape):
        return real_np.array(self.inputs[name], dtype=int).reshape(shape)

    def ints(self, name, shape, lo, hi):
        return real_np.array(self.inputs[name], dtype=int).reshape(shape)

    def const(self, x):
        return real_np.array(x)

    def assume(self, cond, label=''):
        if not bool(to_bool(cond)):
            self.assumption_failed.append(label)

    def coins(self):
        return None

    def seed(self, s):
        self._seed = s
        seed_all(self.real, s)

    def reseed(self):
        seed_all(self.real, getattr(self, '_seed', 0))

    def identify_streams(self):
        return True

    def run(self, thunk):
        try:
            return Outcome(thunk(), False, [])
        except Exception as e:
            self.notes.append('%s: %s' % (type(e).__name__, e))
            return Outcome(None, True, [(type(e).__name__, True)])


_seed_helper = None


def seed_all(real, s):
    global _seed_helper
    real_np.random.seed(s)
    import random
    random.seed(s)
    if _seed_helper is None:
        import numba

        @numba.njit
        def _seed(x):
            real_np.random.seed(x)
        _seed_helper = _seed
    _seed_helper(s)
    try:
        import torch
        torch.manual_seed(s)
    except Exception:
        pass


# ------------------------------------------------------------------ solving one harness
def _solve(base, neg, timeout_ms):
    s = z3.SolverFor('QF_BV')
    s.set('timeout', int(timeout_ms))
    s.add(*base)
    if neg is not None:
        s.add(neg)
    t = time.time()
    r = s.check()
    dt = time.time() - t
    if neg is not None and dt < 0.5:
        cross_check(s, str(r))
    return s, str(r), dt


_WIT_RNG = {}


def _wit_rng(label):
    import random
    import zlib
    if label not in _WIT_RNG:
        _WIT_RNG[label] = random.Random(zlib.crc32(label.encode()) ^ 0x5bd1e995)
    return _WIT_RNG[label]


def _diverse_model(solver, label):
    """a model of the (satisfiable) path assumptions that is not the solver's favourite all-zeros one: input bits are
    pinned one after the other to pseudo-random values (seeded by the harness label) whenever that keeps the assumptions
    satisfiable.  Used for witness validation only; any model would be sound."""
    import random
    import zlib
    rnd = random.Random(zlib.crc32(label.encode()))
    vars_ = []
    for name, (shape, flat) in STORE.inputs.items():
        for x in flat:
            if isinstance(x, SV) and z3.is_const(x.e) and x.e.decl().kind() == z3.Z3_OP_UNINTERPRETED:
                vars_.append(x)
    rnd.shuffle(vars_)
    solver.set('timeout', 2000)
    t0 = time.time()
    for x in vars_[:80]:
        if time.time() - t0 > 5:
            break
        v = rnd.randint(x.lo, x.hi)
        solver.push()
        solver.add(x.e == z3.BitVecVal(v, x.e.size()))
        if str(solver.check()) != 'sat':
            solver.pop()
    if str(solver.check()) != 'sat':
        while solver.num_scopes():
            solver.pop()
        solver.check()
    return solver.model()


XCHECK = dict(left=0, done=0, agree=0, skipped=0, errors=[])


def cross_check(solver, verdict):
    """re-decide the same query with the independent z3 4.8.12 binary (and cvc5 when it accepts the file)"""
    import shutil
    import tempfile
    if XCHECK['left'] <= 0 or verdict not in ('sat', 'unsat'):
        return
    XCHECK['left'] -= 1
    text = '(set-logic QF_BV)\n' + solver.to_smt2()
    with tempfile.NamedTemporaryFile('w', suffix='.smt2', dir=os.path.join(VERIF, 'replays'), delete=False) as f:
        f.write(text)
        path = f.name
    try:
        for tool, cmd in (('z3-4.8.12', ['/usr/bin/z3', '-T:5', path]), ('cvc5', ['cvc5', '--tlimit=5000', path])):
            if not shutil.which(cmd[0]):
                continue
            try:
                p = subprocess.run(cmd, capture_output=True, text=True, timeout=8)
            except subprocess.TimeoutExpired:
                XCHECK['skipped'] += 1
                continue
            out = p.stdout.strip().splitlines()
            ans = out[0].strip() if out else ''
            if '(error' in p.stdout or ans not in ('sat', 'unsat'):
                XCHECK['skipped'] += 1          # unsupported construct / timeout in the other solver: no verdict to compare
                continue
            XCHECK['done'] += 1
            if ans == verdict:
                XCHECK['agree'] += 1
            else:
                XCHECK['errors'].append('%s answered %s where z3 %s answered %s (%s)' % (tool, ans, z3.get_version_string(), verdict, path))
                return
    finally:
        if not XCHECK['errors']:
            try:
                os.unlink(path)
            except OSError:
                pass


def extract_inputs(model):
    out = {}
    for name, (shape, flat) in STORE.inputs.items():
        vals = [model_value(model, x) for x in flat]
        out[name] = real_np.array(vals, dtype=object).reshape(shape).tolist() if shape else vals[0]
    out['__coins__'] = [model_value(model, c) for c in STORE.coins]
    return out


def run_job(job, packages, known, replay_dir):
    """Explore every path of one harness and decide every goal conjunct on every path.

    job: dict(prop, harness=(module, function), params, label, timeout_s, max_paths)
    returns a record with per-obligation verdicts."""
    import importlib
    t0 = time.time()
    mod = importlib.import_module('harness.' + job['harness'][0])
    fn = getattr(mod, job['harness'][1])
    rec = dict(label=job['label'], prop=job['prop'], harness=list(job['harness']), params=job['params'], paths=0,
               queries=0, solver_s=0.0, obligations=[], vacuity_witnesses=0, status='ok', folded=0,
               known=[], violations=[], inconclusive=[], errors=[], forked_sites=[], kernels={}, assumptions=[],
               samples=[], max_abs=0, stub_assumptions=[], witnesses=[])
    timeout_ms = int(job.get('timeout_s', 120) * 1000)
    max_paths = job.get('max_paths', 20000)
    if getattr(fn, 'custom', False):
        # multi-copy / counting obligations build their own queries from the collected paths
        try:
            fn(job, packages, rec)
        except NeedConcrete as e:
            rec['errors'].append('encoder: %s' % e)
            rec['trace'] = traceback.format_exc()[-1500:]
        except Exception as e:
            rec['errors'].append('harness exception %s: %s' % (type(e).__name__, e))
            rec['trace'] = traceback.format_exc()[-2500:]
        for p in packages.values():
            rec['forked_sites'] += sorted('%s:%s' % s for s in p.interp.forked_sites)
            for k, v in p.interp.kernels_used.items():
                rec['kernels'][p.pkg + '.' + k] = rec['kernels'].get(p.pkg + '.' + k, 0) + v
        rec['wall_s'] = round(time.time() - t0, 3)
        return rec
    XCHECK.update(left=job.get('xcheck', 0), done=0, agree=0, skipped=0, errors=[])
    stack = [[]]
    goal_names = {}
    stop = False            # one reproduced violation per harness instance is enough: stop exploring it
    try:
        while stack and not stop:
            prefix = stack.pop()
            STORE.reset()
            for p in packages.values():
                p.interp.reset_run(); p.reset_globals()
            ctx = Ctx(prefix)
            Ctx.cur = ctx
            env = SymEnv(ctx, packages)
            try:
                fn(env, **job['params'])
            except Infeasible:
                stack.extend(ctx.new)
                rec['queries'] += ctx.nq
                rec['solver_s'] += ctx.tq
                continue
            finally:
                Ctx.cur = None
            stack.extend(ctx.new)
            rec['paths'] += 1
            rec['queries'] += ctx.nq
            rec['solver_s'] += ctx.tq
            if rec['paths'] > max_paths:
                raise PathLimit()
            base = list(STORE.side) + list(ctx.pc)
            for p in packages.values():
                for (what, where, cond) in p.interp.assumed:
                    base.append(bexpr(cond))
                    rec['stub_assumptions'].append('%s at %s:%s' % (what, where[0], where[1]))
            # vacuity: the path condition with all assumptions must be satisfiable (reachability twin)
            s, r, dt = _solve(base, None, timeout_ms)
            rec['queries'] += 1
            rec['solver_s'] += dt
            wit = None
            if r == 'sat':
                rec['vacuity_witnesses'] += 1
                # witnesses for validation on the real build: reservoir sampling over the clean paths (seeded by the label),
                # so that not only the first path (the solver's all-zero choices) is replayed
                n_clean = rec.setdefault('_clean_paths', 0) + 1
                rec['_clean_paths'] = n_clean
                W = job.get('witnesses', 2)
                take = len(rec['witnesses']) < W or _wit_rng(job['label']).random() < W / n_clean
                if take:
                    try:
                        wit = dict(property=job['prop'], harness=list(job['harness']), params=job['params'], label=job['label'],
                                   goal='*', inputs=extract_inputs(_diverse_model(s, job['label'])), tags={}, notes=[])
                    except Exception:
                        wit = None
            elif r == 'unsat':
                rec['errors'].append('vacuous path (assumptions unsatisfiable after the run)')
                continue
            path_clean = True
            for (gname, cond) in env.goals:
                c = to_bool(cond)
                ob = goal_names.setdefault(gname, dict(name=gname, verdict='unsat', queries=0, folded=0, time_s=0.0))
                if c is True:
                    ob['folded'] += 1
                    rec['folded'] += 1
                    continue
                excluded = []
                while True:
                    neg = z3.BoolVal(True) if c is False else z3.Not(c.e)
                    s, r, dt = _solve(base + excluded, neg, timeout_ms)
                    ob['queries'] += 1
                    ob['time_s'] += dt
                    rec['queries'] += 1
                    rec['solver_s'] += dt
                    if r == 'unsat':
                        break
                    path_clean = False
                    if r != 'sat':
                        ob['verdict'] = 'unknown'
                        rec['inconclusive'].append(dict(goal=gname, reason=s.reason_unknown(), time_s=round(dt, 2)))
                        break
                    model = s.model()
                    cex = dict(property=job['prop'], harness=list(job['harness']), params=job['params'], goal=gname,
                               label=job['label'], inputs=extract_inputs(model),
                               tags={k: bool(model_value(model, to_bool(v))) if is_sym(to_bool(v)) else bool(to_bool(v))
                                     for k, v in env.tags.items()},
                               notes=env.notes[:5])
                    kf = match_known(known, job, gname, cex['tags'])
                    path = write_replay(replay_dir, cex)
                    rp = replay_file(path)
                    cex['replay'] = rp
                    if rp.get('status') != 'reproduced':
                        ob['verdict'] = 'unreproduced'
                        rec['errors'].append('counterexample for %s/%s did not reproduce on the real build (%s): %s'
                                             % (job['label'], gname, rp.get('status'), path))
                        stop = True
                        break
                    if kf is not None:
                        rec['known'].append(dict(goal=gname, finding=kf['id'], what=kf['what'], replay=path))
                        ob['verdict'] = 'known-finding+unsat'
                        excluded.append(z3.Not(bexpr(to_bool(env.tags[kf['class']]))))
                        continue
                    ob['verdict'] = 'sat'
                    rec['violations'].append(dict(goal=gname, replay=path, inputs=cex['inputs']))
                    stop = True
                    break
                if stop:
                    break
                if len(rec['samples']) < 2:
                    rec['samples'].append(dict(harness=job['label'], goal=gname, path_decisions=len(ctx.prefix),
                                               verdict=ob['verdict'], bound=job['params']))
            if wit is not None and path_clean and not stop:
                # every goal of this path was discharged for all inputs: the witness must satisfy all of them on the real build
                wit['goals'] = [g for g, _ in env.goals]
                if len(rec['witnesses']) < job.get('witnesses', 2):
                    rec['witnesses'].append(wit)
                else:
                    rec['witnesses'][_wit_rng(job['label']).randrange(len(rec['witnesses']))] = wit
            rec['max_abs'] = max(rec['max_abs'], STORE.max_abs)
            rec['assumptions'] = sorted(set(rec['assumptions']) | set(a for a in env.assumptions if a))
    except PathLimit:
        rec['errors'].append('path limit %d exceeded' % max_paths)
    except NeedConcrete as e:
        rec['errors'].append('encoder: %s' % e)
        rec['trace'] = traceback.format_exc()[-1500:]
    except Exception as e:
        rec['errors'].append('harness exception %s: %s' % (type(e).__name__, e))
        rec['trace'] = traceback.format_exc()[-2500:]
    from . import shim_numpy as _sn
    for nm in sorted(_sn.C_BOUNDARY):
        rec['stub_assumptions'].append('numpy.%s entered with concretised arguments (C boundary, path forks over feasible values)' % nm)
    rec['obligations'] = list(goal_names.values())
    rec['xcheck'] = dict(done=XCHECK['done'], agree=XCHECK['agree'], skipped=XCHECK['skipped'])
    for e in XCHECK['errors']:
        rec['errors'].append('solver cross-check: ' + e)
    for p in packages.values():
        rec['forked_sites'] += sorted('%s:%s' % s for s in p.interp.forked_sites)
        for k, v in p.interp.kernels_used.items():
            rec['kernels'][p.pkg + '.' + k] = rec['kernels'].get(p.pkg + '.' + k, 0) + v
    if rec['paths'] == 0 and not rec['errors']:
        rec['errors'].append('no feasible path: harness is vacuous')
    rec['wall_s'] = round(time.time() - t0, 3)
    return rec


def collect_paths(thunk, packages, rec, max_paths=5000):
    """run thunk(env) on every path; returns [(path condition incl. side constraints and while-exit assumptions,
    value, coins)] -- coin variable names are identical on all paths because the draw order is path independent"""
    out = []
    stack = [[]]
    while stack:
        prefix = stack.pop()
        STORE.reset()
        for p in packages.values():
            p.interp.reset_run(); p.reset_globals()
        ctx = Ctx(prefix)
        Ctx.cur = ctx
        env = SymEnv(ctx, packages)
        try:
            val = thunk(env)
        except Infeasible:
            stack.extend(ctx.new)
            continue
        finally:
            Ctx.cur = None
        stack.extend(ctx.new)
        rec['paths'] += 1
        rec['queries'] += ctx.nq
        rec['solver_s'] += ctx.tq
        if rec['paths'] > max_paths:
            raise PathLimit()
        pc = list(STORE.side) + list(ctx.pc)
        assumed = []
        for p in packages.values():
            for (what, where, cond) in p.interp.assumed:
                assumed.append(bexpr(cond))
                rec['stub_assumptions'].append('%s at %s:%s' % (what, where[0], where[1]))
        events = [ev for p in packages.values() for ev in p.interp.events]
        out.append(dict(pc=pc, assumed=assumed, value=val, coins=list(STORE.coins), events=events))
    return out


def solve_query(rec, name, constraints, timeout_s, expect):
    """one obligation of a custom job: expect in ('unsat', 'sat')"""
    s, r, dt = _solve(constraints, None, int(timeout_s * 1000))
    rec['queries'] += 1
    rec['solver_s'] += dt
    ob = dict(name=name, verdict='unsat' if r == expect else ('unknown' if r == 'unknown' else 'sat'), queries=1, folded=0, time_s=dt, raw=r, expect=expect)
    rec['obligations'].append(ob)
    if r == 'unknown':
        rec['inconclusive'].append(dict(goal=name, reason=s.reason_unknown(), time_s=round(dt, 2)))
    if len(rec['samples']) < 2:
        rec['samples'].append(dict(harness=rec['label'], goal=name, verdict=r, expected=expect, bound=rec['params']))
    return s, r


def match_known(known, job, gname, tags):
    for kf in known:
        if kf.get('status', 'open') != 'open':
            continue
        if kf['property'] != job['prop']:
            continue
        if kf.get('harness') and kf['harness'] != job['harness'][1]:
            continue
        if kf.get('goal_prefix') and not gname.startswith(kf['goal_prefix']):
            continue
        if any(job['params'].get(k) != v for k, v in kf.get('params', {}).items()):
            continue
        if tags.get(kf['class']):
            return kf
    return None


_replay_n = [0]


def write_replay(replay_dir, cex):
    os.makedirs(replay_dir, exist_ok=True)
    _replay_n[0] += 1
    name = '%s_%s_%d_%d.json' % (cex['property'], cex['harness'][1], os.getpid(), _replay_n[0])
    path = os.path.join(replay_dir, name)
    with open(path, 'w') as f:
        json.dump(cex, f, indent=1, default=_json_default)
    return path


def _json_default(o):
    import fractions
    if isinstance(o, (real_np.integer,)):
        return int(o)
    if isinstance(o, (real_np.bool_,)):
        return bool(o)
    if isinstance(o, fractions.Fraction):
        return float(o)
    if isinstance(o, complex):
        return [o.real, o.imag]
    return str(o)


def replay_file(path, timeout=600):
    """run the counterexample against the real build in a fresh interpreter; returns the judge's record"""
    cmd = [sys.executable, os.path.join(VERIF, 'check.py'), '--replay', path, '--quiet']
    try:
        p = subprocess.run(cmd, capture_output=True, text=True, timeout=timeout, cwd=VERIF)
    except subprocess.TimeoutExpired:
        return dict(status='replay-timeout')
    for line in p.stdout.splitlines()[::-1]:
        if line.startswith('REPLAY-RESULT '):
            return json.loads(line[len('REPLAY-RESULT '):])
    return dict(status='replay-crashed', stderr=p.stderr[-1500:], stdout=p.stdout[-500:])


# ------------------------------------------------------------------ concrete judge (runs in the replay process)
def real_modules(pkg, sub):
    import importlib
    root = os.environ.get('PYCLIFFORD_ROOT', '/repo')
    if root not in sys.path:
        sys.path.insert(0, root)
    m = importlib.import_module(pkg + '.' + sub)
    assert os.path.abspath(m.__file__).startswith(os.path.abspath(root)), (m.__file__, root)
    return m


def judge(cex, seeds=48):
    """re-run the harness over the real build on the concrete inputs; reproduced iff the goal is false"""
    import importlib
    import warnings
    warnings.filterwarnings('ignore')
    mod = importlib.import_module('harness.' + cex['harness'][0])
    if cex.get('kind') and hasattr(mod, 'custom_judge'):
        return mod.custom_judge(cex)
    fn = getattr(mod, cex['harness'][1])
    uses_rng = getattr(fn, 'uses_rng', False)
    variation = getattr(fn, 'variation_goals', {})
    gname = cex['goal']
    seen = {}
    detail = None
    for seed in range(seeds if uses_rng else 1):
        env = ConcreteEnv(cex['inputs'], real_modules)
        env.seed(seed)
        fn(env, **cex['params'])
        if env.assumption_failed:
            return dict(status='precondition-violated', which=env.assumption_failed)
        goals = dict((n, c) for n, c in env.goals)
        if gname in variation:
            # goal "<observable> takes both values over the coins": judged across seeds
            obs = variation[gname]
            app = env.observed.get(obs + '?', True)
            if app:
                seen.setdefault(obs, set()).add(json.dumps(env.observed.get(obs), default=_json_default))
            continue
        if gname not in goals:
            detail = 'goal not produced on the concrete run'
            continue
        if not bool(to_bool(goals[gname])):
            return dict(status='reproduced', seed=seed, notes=env.notes[:5],
                        observed={k: _jsonable(v) for k, v in env.observed.items()})
    if gname in variation:
        obs = variation[gname]
        if obs in seen and len(seen[obs]) < 2:
            return dict(status='reproduced', note='%s constant over %d seeds: %s' % (obs, seeds, sorted(seen[obs])))
        return dict(status='not-reproduced', note='%s varied or not applicable' % obs)
    return dict(status='not-reproduced', detail=detail)


def judge_all(cex, seeds=3):
    """witness validation: run the harness over the real build on a model of a path whose goals were all discharged;
    returns the goals that are false there (the encoding and the real build disagree) -- empty when they agree"""
    import importlib
    import warnings
    warnings.filterwarnings('ignore')
    mod = importlib.import_module('harness.' + cex['harness'][0])
    fn = getattr(mod, cex['harness'][1])
    uses_rng = getattr(fn, 'uses_rng', False)
    variation = getattr(fn, 'variation_goals', {})
    bad, checked = [], 0
    for seed in range(seeds if uses_rng else 1):
        env = ConcreteEnv(cex['inputs'], real_modules)
        env.seed(seed)
        fn(env, **cex['params'])
        if env.assumption_failed:
            return dict(status='precondition-violated', which=env.assumption_failed, checked=0, false_goals=[])
        for n, c in env.goals:
            if n in variation:
                continue
            checked += 1
            if not bool(to_bool(c)):
                bad.append(n)
        if bad:
            break
    return dict(status='diverged' if bad else 'agreed', false_goals=sorted(set(bad))[:6], checked=checked)


def _jsonable(v):
    try:
        return json.loads(json.dumps(v, default=_json_default))
    except Exception:
        return str(v)
