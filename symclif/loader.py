"""Load the repo's *current* source text with numpy / numba / qutip / torch imports redirected.

Nothing is cached between runs: every check re-reads /repo (or $PYCLIFFORD_ROOT) and re-derives the encoding.
@njit functions become interp.Kernel objects (predicated execution of their AST); everything else runs natively
over the symbolic arrays.
"""
import ast
import builtins
import os
import types
from . import interp as _interp
from .shim_numpy import NP

ROOT = os.environ.get('PYCLIFFORD_ROOT', '/repo')


class NumbaShim:
    def __init__(self, interp, registry):
        self.interp, self.registry = interp, registry

    def njit(self, fn=None, **kw):
        if fn is None:
            return lambda f: self.njit(f)
        k = make_kernel(fn, self.interp)
        self.registry.append(k)
        return k

    jit = njit


_ast_cache = {}      # path -> {function name: [FunctionDef nodes]}   (filled once per run from the current source text)
_code_cache = {}     # path -> (source text, code object)


def _load_source(path):
    if path not in _code_cache:
        src = open(path).read()
        _code_cache[path] = (src, compile(src, path, 'exec'))
        idx = {}
        for n in ast.walk(ast.parse(src)):
            if isinstance(n, ast.FunctionDef):
                idx.setdefault(n.name, []).append(n)
        _ast_cache[path] = idx
    return _code_cache[path]


def make_kernel(fn, interp):
    path = fn.__code__.co_filename
    _load_source(path)
    cands = [n for n in _ast_cache[path].get(fn.__name__, [])
             if (n.decorator_list[0].lineno if n.decorator_list else n.lineno) <= fn.__code__.co_firstlineno <= n.lineno]
    if len(cands) != 1:
        raise RuntimeError('cannot locate the AST of kernel %s (%d candidates)' % (fn.__name__, len(cands)))
    return _interp.Kernel(fn.__name__, cands[0], fn.__globals__, fn, interp)


class Package:
    """one loaded copy of a package (pyclifford or torchclifford) over the shims"""
    def __init__(self, pkg, root=None, extra=None):
        self.pkg = pkg
        self.root = os.path.join(root or ROOT, pkg)
        self.interp = _interp.Interp()
        self.kernels = []
        self.mods = {}
        self.extra = extra or {}
        self.numba = NumbaShim(self.interp, self.kernels)
        self.sources = {}

    def _imp(self, name, globals=None, locals=None, fromlist=(), level=0):
        if level > 0:
            if name:
                return self.get(name)
            # `from . import x`
            ns = types.SimpleNamespace()
            for f in fromlist:
                setattr(ns, f, self.get(f))
            return ns
        if name == 'numpy' or name.startswith('numpy.'):
            return NP
        if name == 'numba':
            return self.numba
        if name in self.extra:
            return self.extra[name]
        if name == 'qutip':
            from .shim_qutip import QT
            return QT
        return builtins.__import__(name, globals, locals, fromlist, level)

    def get(self, sub):
        if sub in self.mods:
            return self.mods[sub]
        m = types.ModuleType(self.pkg + '.' + sub)
        self.mods[sub] = m
        path = os.path.join(self.root, sub + '.py')
        b = dict(vars(builtins))
        b['__import__'] = self._imp
        m.__dict__['__builtins__'] = b
        m.__dict__['__file__'] = path
        m.__dict__['__package__'] = self.pkg
        src, code = _load_source(path)
        self.sources[sub] = src
        exec(code, m.__dict__)
        self.snapshot_globals([m])       # the state right after import is the pristine one
        return m

    # ---- module-level mutable state (memo tables, workspaces, lru caches, class-level containers) ----
    # Every explored path must start from the state of a fresh process, exactly like the replay of a counterexample
    # does; call histories inside one path are the harness's business.  Containers are restored in place.
    def _mutable_slots(self, mods=None):
        for m in (mods if mods is not None else self.mods.values()):
            owners = [m.__dict__] + [c.__dict__ for c in m.__dict__.values() if isinstance(c, type) and getattr(c, '__module__', None) == m.__name__]
            for d in owners:
                for k, v in list(d.items()):
                    if k.startswith('__'):
                        continue
                    if isinstance(v, (dict, list, set, bytearray)) or type(v).__name__ in ('ndarray', 'SArr', 'Tensor', 'defaultdict', 'OrderedDict', 'deque'):
                        yield d, k, v
                    elif callable(v) and type(v).__name__ == '_lru_cache_wrapper':
                        yield d, k, v

    def snapshot_globals(self, mods=None):
        import copy
        if not hasattr(self, '_pristine'):
            self._pristine = []
        for d, k, v in self._mutable_slots(mods):
            if hasattr(v, 'cache_clear'):
                self._pristine.append((v, 'lru', None))
                continue
            try:
                self._pristine.append((v, 'copy', copy.deepcopy(v)))
            except Exception:
                pass

    def reset_globals(self):
        import copy
        for v, how, orig in getattr(self, '_pristine', ()):
            try:
                if how == 'lru':
                    v.cache_clear()
                elif isinstance(v, (dict, set)) or type(v).__name__ in ('defaultdict', 'OrderedDict'):
                    v.clear()
                    v.update(copy.deepcopy(orig))
                elif isinstance(v, (list, bytearray)) or type(v).__name__ == 'deque':
                    v[:] = copy.deepcopy(orig)
                else:
                    v[...] = orig
            except Exception:
                pass

    def kernel(self, name):
        for k in self.kernels:
            if k.name == name:
                return k
        raise KeyError(name)
