"""Symbolic scalars for the bounded encoding.

SV      exact integer (z3 bit-vector term + conservative interval) or boolean (z3 Bool)
SDyad   exact dyadic rational  m * 2**-k  (m an integer value, k concrete)  -- log2prob, trace, prob
SC      complex number re + i*im whose parts are exact numbers (Gaussian integers / dyadics)

Every operation widens its operands to a width that holds the mathematical result, so the bit-vector
value always equals the unbounded Python / int64 result (no wrap-around inside the stated bounds).
When all operands are concrete the functions compute with plain Python numbers: the same code is the
concrete evaluator used for translator validation and for replay judging.
"""
import fractions
import operator
import numpy as np
import z3


class NeedConcrete(BaseException):
    """the encoder met a construct it cannot represent symbolically (harness error, never a verdict)"""


# ---------------------------------------------------------------- widths
def repr_for(lo, hi):
    """(width, signed) minimal representation for the interval"""
    if lo >= 0:
        return max(1, hi.bit_length()), False
    return width_for(lo, hi), True


def width_for(lo, hi):
    """signed working width able to hold [lo,hi]"""
    w = 1
    while not (-(1 << (w - 1)) <= lo and hi <= (1 << (w - 1)) - 1):
        w += 1
    return w


class Store:
    """per-process registry of fresh variables and their range side constraints"""
    def __init__(self):
        self.reset()

    def reset(self):
        self.side = []          # z3 range constraints of fresh variables
        self.n = 0
        self.coins = []         # SV coins in draw order
        self.havoc = []         # SV values standing for uninitialised memory
        self.inputs = {}        # name -> (shape, list of SV/ints in flat order)
        self.max_abs = 0        # largest magnitude any interval reached (evidence: far from int64 / 2**24)

    def fresh(self, prefix, lo, hi):
        self.n += 1
        w, sg = repr_for(lo, hi)
        assert not sg
        v = z3.BitVec('%s!%d' % (prefix, self.n), w)
        if lo != 0 or hi != (1 << w) - 1:
            self.side.append(z3.And(z3.UGE(v, lo), z3.ULE(v, hi)))
        return SV(v, lo, hi)

    def named(self, name, lo, hi):
        w, sg = repr_for(lo, hi)
        assert not sg
        v = z3.BitVec(name, w)
        if lo != 0 or hi != (1 << w) - 1:
            self.side.append(z3.And(z3.UGE(v, lo), z3.ULE(v, hi)))
        return SV(v, lo, hi)


STORE = Store()


class SV:
    __slots__ = ('e', 'lo', 'hi', 'kind', 'signed')
    __array_priority__ = 1000

    def __init__(self, e, lo=None, hi=None, kind='i'):
        self.e = e
        self.kind = kind
        if kind == 'i':
            self.lo = lo
            self.hi = hi
            w, sg = repr_for(lo, hi)
            assert e.size() == w, (e, lo, hi)
            self.signed = sg
            m = max(abs(lo), abs(hi))
            if m > STORE.max_abs:
                STORE.max_abs = m
        else:
            self.lo = 0
            self.hi = 1
            self.signed = False

    @staticmethod
    def mk(e, lo, hi):
        """build an int SV from a signed working-width term whose value lies in [lo,hi]"""
        if lo == hi:
            return lo
        w, sg = repr_for(lo, hi)
        if e.size() > w:
            e = z3.Extract(w - 1, 0, e)
        elif e.size() < w:
            e = z3.SignExt(w - e.size(), e)
        e = z3.simplify(e)
        if z3.is_bv_value(e):
            v = e.as_signed_long() if sg else e.as_long()
            return v
        return SV(e, lo, hi)

    def ext(self, w):
        """value as a signed bit-vector of width w (w must be a valid signed working width)"""
        assert self.kind == 'i'
        s = self.e.size()
        if s == w:
            assert self.signed or self.hi < (1 << (w - 1)), 'width too small'
            return self.e
        assert s < w, (s, w)
        return z3.SignExt(w - s, self.e) if self.signed else z3.ZeroExt(w - s, self.e)

    def as_int(self):
        if self.kind == 'i':
            return self
        return SV(z3.If(self.e, z3.BitVecVal(1, 1), z3.BitVecVal(0, 1)), 0, 1)

    def __repr__(self):
        return 'SV<%s:%s>' % (self.kind, self.e)

    # truthiness / indexing are routed through the path explorer (explore.py installs the hooks)
    def __bool__(self):
        return _HOOKS['bool'](self)

    def __index__(self):
        return _HOOKS['index'](self)

    def __int__(self):
        return _HOOKS['index'](self)

    __hash__ = None

    def _nd(o):
        return isinstance(o, np.ndarray)

    def __add__(self, o):
        return NotImplemented if not _is_num(o) else arith('+', self, o)

    def __radd__(self, o):
        return arith('+', o, self)

    def __sub__(self, o):
        return NotImplemented if not _is_num(o) else arith('-', self, o)

    def __rsub__(self, o):
        return arith('-', o, self)

    def __mul__(self, o):
        return NotImplemented if not _is_num(o) else arith('*', self, o)

    def __rmul__(self, o):
        return arith('*', o, self)

    def __mod__(self, o):
        return NotImplemented if not _is_num(o) else arith('%', self, o)

    def __floordiv__(self, o):
        return NotImplemented if not _is_num(o) else arith('//', self, o)

    def __truediv__(self, o):
        return NotImplemented if not _is_num(o) else arith('/', self, o)

    def __rtruediv__(self, o):
        return arith('/', o, self)

    def __pow__(self, o):
        return NotImplemented if not _is_num(o) else arith('**', self, o)

    def __rpow__(self, o):
        return arith('**', o, self)

    def __neg__(self):
        return arith('-', 0, self)

    def __pos__(self):
        return self

    def __abs__(self):
        return ite(compare('<', self, 0), arith('-', 0, self), self)

    def __eq__(self, o):
        return NotImplemented if not _is_num(o) else compare('==', self, o)

    def __ne__(self, o):
        return NotImplemented if not _is_num(o) else compare('!=', self, o)

    def __lt__(self, o):
        return NotImplemented if not _is_num(o) else compare('<', self, o)

    def __le__(self, o):
        return NotImplemented if not _is_num(o) else compare('<=', self, o)

    def __gt__(self, o):
        return NotImplemented if not _is_num(o) else compare('>', self, o)

    def __ge__(self, o):
        return NotImplemented if not _is_num(o) else compare('>=', self, o)

    def __invert__(self):
        if self.kind == 'b':
            return b_not(self)
        return arith('-', arith('-', 0, self), 1)      # ~x == -x-1 for Python ints

    def __and__(self, o):
        return bitop('&', self, o)

    def __rand__(self, o):
        return bitop('&', o, self)

    def __or__(self, o):
        return bitop('|', self, o)

    def __ror__(self, o):
        return bitop('|', o, self)

    def __xor__(self, o):
        return bitop('^', self, o)

    def __rxor__(self, o):
        return bitop('^', o, self)

    def __lshift__(self, k):
        if is_sym(k):
            raise NeedConcrete('symbolic shift amount')
        return arith('*', self, 1 << int(k))

    def __rshift__(self, k):
        if is_sym(k):
            raise NeedConcrete('symbolic shift amount')
        return arith('//', self, 1 << int(k))

    # numpy scalar look-alikes used by the class layer
    def astype(self, t):
        return self

    @property
    def real(self):
        return self

    @property
    def imag(self):
        return 0

    def is_integer(self):
        return True

    def __round__(self, n=None):
        return self

    def item(self):
        return self


def _no_hook(x):
    raise NeedConcrete('concrete value of a symbolic scalar needed outside the path explorer: %r' % (x,))


_HOOKS = {'bool': _no_hook, 'index': _no_hook}


def _is_num(o):
    return isinstance(o, (int, float, complex, bool, np.number, np.bool_, fractions.Fraction, SV, SDyad, SC))


def is_sym(x):
    return isinstance(x, SV)


def is_conc_num(x):
    return isinstance(x, (int, bool, np.integer, np.bool_))


def to_int(x):
    if isinstance(x, SV):
        return x.as_int()
    if isinstance(x, (bool, np.bool_)):
        return int(x)
    if isinstance(x, (int, np.integer)):
        return int(x)
    if isinstance(x, (float, np.floating)) and float(x).is_integer():
        return int(x)
    if isinstance(x, fractions.Fraction) and x.denominator == 1:
        return int(x)
    raise NeedConcrete('to_int %r' % (x,))


def bounds(x):
    return (x.lo, x.hi) if isinstance(x, SV) else (x, x)


def bv(x, w):
    return x.ext(w) if isinstance(x, SV) else z3.BitVecVal(x, w)


def _is_float(x):
    return isinstance(x, (float, np.floating, fractions.Fraction)) and not float(x).is_integer()


def arith(op, a, b):
    # ---- non-integer worlds first
    if isinstance(a, SC) or isinstance(b, SC) or isinstance(a, (complex, np.complexfloating)) or isinstance(b, (complex, np.complexfloating)):
        return SC.arith(op, a, b)
    if isinstance(a, SDyad) or isinstance(b, SDyad) or _is_float(a) or _is_float(b) or op == '/':
        return SDyad.arith(op, a, b)
    a = to_int(a)
    b = to_int(b)
    if not is_sym(a) and not is_sym(b):
        return {'+': operator.add, '-': operator.sub, '*': operator.mul, '%': operator.mod,
                '//': operator.floordiv, '**': operator.pow}[op](a, b)
    (al, ah), (bl, bh) = bounds(a), bounds(b)
    if op == '+':
        if not is_sym(b) and b == 0:
            return a
        if not is_sym(a) and a == 0:
            return b
        lo, hi = al + bl, ah + bh
        w = max(width_for(lo, hi), width_for(al, ah), width_for(bl, bh))
        return SV.mk(bv(a, w) + bv(b, w), lo, hi)
    if op == '-':
        if not is_sym(b) and b == 0:
            return a
        lo, hi = al - bh, ah - bl
        w = max(width_for(lo, hi), width_for(al, ah), width_for(bl, bh))
        return SV.mk(bv(a, w) - bv(b, w), lo, hi)
    if op == '*':
        if not is_sym(a) and a == 0:
            return 0
        if not is_sym(b) and b == 0:
            return 0
        if not is_sym(a) and a == 1:
            return b
        if not is_sym(b) and b == 1:
            return a
        c = [al * bl, al * bh, ah * bl, ah * bh]
        lo, hi = min(c), max(c)
        w = max(width_for(lo, hi), width_for(al, ah), width_for(bl, bh)) + 1
        if is_sym(a) and (al, ah) == (0, 1):     # product with a bit is an ite, not a multiplier
            return SV.mk(z3.If(a.e == 1, bv(b, w), z3.BitVecVal(0, w)), min(0, lo), max(0, hi))
        if is_sym(b) and (bl, bh) == (0, 1):
            return SV.mk(z3.If(b.e == 1, bv(a, w), z3.BitVecVal(0, w)), min(0, lo), max(0, hi))
        if is_sym(a) and al >= -1 and ah <= 1:   # product with a unit -1/0/+1 is a three-way ite
            x, y = bv(a, w), bv(b, w)
            return SV.mk(z3.If(x == 1, y, z3.If(x == -1, -y, z3.BitVecVal(0, w))), min(lo, 0), max(hi, 0))
        if is_sym(b) and bl >= -1 and bh <= 1:
            x, y = bv(b, w), bv(a, w)
            return SV.mk(z3.If(x == 1, y, z3.If(x == -1, -y, z3.BitVecVal(0, w))), min(lo, 0), max(hi, 0))
        return SV.mk(bv(a, w) * bv(b, w), lo, hi)
    if op in ('%', '//'):
        if is_sym(b):
            raise NeedConcrete('symbolic divisor')
        m = b
        if m <= 0:
            raise NeedConcrete('non-positive divisor')
        if op == '%':
            if al >= 0 and ah < m:
                return a
            if al // m == ah // m:               # same block: a - k*m
                return arith('-', a, (al // m) * m)
            if m & (m - 1) == 0:                 # power of two: Extract, never bvsrem
                k = m.bit_length() - 1
                w = max(width_for(al, ah), k + 1)
                return SV.mk(z3.ZeroExt(1, z3.Extract(k - 1, 0, bv(a, w))), 0, m - 1)
            w = max(width_for(al, ah), width_for(0, m)) + 1
            r = z3.SRem(bv(a, w), z3.BitVecVal(m, w))
            r = z3.If(r < 0, r + m, r)
            return SV.mk(r, 0, m - 1)
        lo, hi = al // m, ah // m
        if lo == hi:
            return lo
        if m & (m - 1) == 0:
            k = m.bit_length() - 1
            w = max(width_for(al, ah), k + 2)
            return SV.mk(z3.Extract(w - 1, k, bv(a, w)), lo, hi)
        w = max(width_for(al, ah), width_for(0, m)) + 1
        x = bv(a, w)
        r = z3.SRem(x, z3.BitVecVal(m, w))
        r = z3.If(r < 0, r + m, r)
        q = (x - r) / z3.BitVecVal(m, w)         # exact signed division
        return SV.mk(q, lo, hi)
    if op == '**':
        if is_sym(a) and not is_sym(b):
            if b < 0:
                raise NeedConcrete('negative exponent')
            if b == 0:
                return 1
            r = a
            for _ in range(b - 1):
                r = arith('*', r, a)
            return r
        if not is_sym(a) and is_sym(b):
            if bl < 0:
                raise NeedConcrete('negative exponent')
            res = None
            for v in range(bh, bl - 1, -1):
                val = a ** v
                res = val if res is None else ite(compare('==', b, v), val, res)
            return res
        raise NeedConcrete('sym**sym')
    raise NotImplementedError(op)


def _boolish(x):
    return isinstance(x, (bool, np.bool_)) or (isinstance(x, SV) and x.kind == 'b')


def bitop(op, a, b):
    """Python / numpy semantics of & | ^ : logical on booleans, bitwise on (non-negative) integers"""
    if isinstance(a, np.ndarray) or isinstance(b, np.ndarray):
        return NotImplemented
    if _boolish(a) and _boolish(b):
        if op == '&':
            return b_and(a, b)
        if op == '|':
            return b_or(a, b)
        return compare('!=', to_bool(a), to_bool(b))
    a = to_int(a)
    b = to_int(b)
    if not is_sym(a) and not is_sym(b):
        return {'&': operator.and_, '|': operator.or_, '^': operator.xor}[op](a, b)
    (al, ah), (bl, bh) = bounds(a), bounds(b)
    if al < 0 or bl < 0:
        raise NeedConcrete('bitwise operator on a possibly negative symbolic integer')
    w = max(ah.bit_length(), bh.bit_length(), 1) + 1
    x, y = bv(a, w), bv(b, w)
    e = {'&': x & y, '|': x | y, '^': x ^ y}[op]
    hi = (1 << (w - 1)) - 1 if op != '&' else min(ah, bh)
    return SV.mk(e, 0, hi)


def mkbool(e):
    e = z3.simplify(e)
    if z3.is_true(e):
        return True
    if z3.is_false(e):
        return False
    return SV(e, kind='b')


_OPS = {'==': operator.eq, '!=': operator.ne, '<': operator.lt, '<=': operator.le, '>': operator.gt, '>=': operator.ge}


def compare(op, a, b):
    if a is None or b is None:
        return {'==': a is b, '!=': a is not b}[op]
    if isinstance(a, str) or isinstance(b, str):
        if not (isinstance(a, str) and isinstance(b, str)):
            return {'==': False, '!=': True}[op]
        return _OPS[op](a, b)
    if isinstance(a, SC) or isinstance(b, SC) or isinstance(a, (complex, np.complexfloating)) or isinstance(b, (complex, np.complexfloating)):
        return SC.compare(op, a, b)
    if isinstance(a, (SDyad, SAbs)) or isinstance(b, (SDyad, SAbs)):
        return (a if isinstance(a, (SDyad, SAbs)) else b).compare(op, a, b)
    if not isinstance(a, SV) and not isinstance(b, SV):
        if _is_float(a) or _is_float(b) or not (is_conc_num(a) or isinstance(a, (float, np.floating))) \
                or not (is_conc_num(b) or isinstance(b, (float, np.floating))):
            return _OPS[op](a, b)
        return bool(_OPS[op](a, b))
    if _is_float(a) or _is_float(b):
        return SDyad.compare(op, a, b)
    if isinstance(a, SV) and a.kind == 'b' and isinstance(b, SV) and b.kind == 'b':
        if op == '==':
            return mkbool(a.e == b.e)
        if op == '!=':
            return mkbool(a.e != b.e)
    a = to_int(a)
    b = to_int(b)
    (al, ah), (bl, bh) = bounds(a), bounds(b)
    if op == '==':
        if ah < bl or bh < al:
            return False
        if al == ah == bl == bh:
            return True
    elif op == '!=':
        if ah < bl or bh < al:
            return True
        if al == ah == bl == bh:
            return False
    elif op == '<':
        if ah < bl:
            return True
        if al >= bh:
            return False
    elif op == '<=':
        if ah <= bl:
            return True
        if al > bh:
            return False
    elif op == '>':
        return compare('<', b, a)
    elif op == '>=':
        return compare('<=', b, a)
    w = max(width_for(al, ah), width_for(bl, bh))
    x, y = bv(a, w), bv(b, w)
    return mkbool({'==': x == y, '!=': x != y, '<': x < y, '<=': x <= y}[op])


def to_bool(x):
    """truthiness as a concrete bool or a bool SV"""
    if isinstance(x, SV):
        return x if x.kind == 'b' else compare('!=', x, 0)
    if isinstance(x, np.ndarray):
        if x.size != 1:
            raise ValueError('The truth value of an array with more than one element is ambiguous.')
        return to_bool(x.reshape(-1)[0])
    if isinstance(x, (SDyad, SC)):
        return compare('!=', x, 0)
    return bool(x)


def bexpr(x):
    return x.e if isinstance(x, SV) else z3.BoolVal(bool(x))


def b_not(a):
    a = to_bool(a)
    return (not a) if not is_sym(a) else mkbool(z3.Not(a.e))


def b_and(a, b):
    a = to_bool(a)
    b = to_bool(b)
    if a is False or b is False:
        return False
    if a is True:
        return b
    if b is True:
        return a
    return mkbool(z3.And(a.e, b.e))


def b_or(a, b):
    a = to_bool(a)
    b = to_bool(b)
    if a is True or b is True:
        return True
    if a is False:
        return b
    if b is False:
        return a
    return mkbool(z3.Or(a.e, b.e))


def b_implies(a, b):
    return b_or(b_not(a), b)


def AND(xs):
    r = True
    for x in xs:
        r = b_and(r, x)
    return r


def OR(xs):
    r = False
    for x in xs:
        r = b_or(r, x)
    return r


def ite(c, a, b):
    """scalar if-then-else; c is a concrete bool or a bool SV"""
    c = to_bool(c)
    if c is True:
        return a
    if c is False:
        return b
    if a is b:
        return a
    if isinstance(a, SC) or isinstance(b, SC) or isinstance(a, (complex, np.complexfloating)) or isinstance(b, (complex, np.complexfloating)):
        return SC.ite(c, a, b)
    if isinstance(a, SDyad) or isinstance(b, SDyad) or _is_float(a) or _is_float(b):
        return SDyad.ite(c, a, b)
    abool = isinstance(a, (bool, np.bool_)) or (is_sym(a) and a.kind == 'b')
    bbool = isinstance(b, (bool, np.bool_)) or (is_sym(b) and b.kind == 'b')
    if abool and bbool:
        if not is_sym(a) and not is_sym(b) and bool(a) == bool(b):
            return bool(a)
        return mkbool(z3.If(c.e, bexpr(a), bexpr(b)))
    a = to_int(a)
    b = to_int(b)
    if not is_sym(a) and not is_sym(b) and a == b:
        return a
    (al, ah), (bl, bh) = bounds(a), bounds(b)
    lo, hi = min(al, bl), max(ah, bh)
    w = width_for(lo, hi)
    return SV.mk(z3.If(c.e, bv(a, w), bv(b, w)), lo, hi)


# ---------------------------------------------------------------- dyadic rationals
class SDyad:
    """m * 2**-k, m int or int SV, k concrete >= 0.  Exact model of the few float scalars of the kernels
    (log2prob in {0,-1,-2,..}, trace / prob in {0, 2**-j}); stated assumption: those floats are dyadic."""
    __array_priority__ = 1000

    def __init__(self, m, k):
        self.m = m
        self.k = k

    @staticmethod
    def lift(x):
        if isinstance(x, SDyad):
            return x
        if isinstance(x, SV) or is_conc_num(x):
            return SDyad(to_int(x), 0)
        f = fractions.Fraction(x)
        d = f.denominator
        if d & (d - 1):
            raise NeedConcrete('non-dyadic float %r' % (x,))
        return SDyad(f.numerator, d.bit_length() - 1)

    @staticmethod
    def align(a, b):
        a = SDyad.lift(a)
        b = SDyad.lift(b)
        k = max(a.k, b.k)
        return arith('*', a.m, 1 << (k - a.k)), arith('*', b.m, 1 << (k - b.k)), k

    def norm(self):
        if not is_sym(self.m):
            return float(fractions.Fraction(self.m, 1 << self.k))   # exact: dyadic
        return self

    @staticmethod
    def arith(op, a, b):
        if not isinstance(a, (SDyad, SV)) and not isinstance(b, (SDyad, SV)):
            a = float(a) if not isinstance(a, (int, np.integer)) else int(a)
            b = float(b) if not isinstance(b, (int, np.integer)) else int(b)
            return {'+': operator.add, '-': operator.sub, '*': operator.mul, '/': operator.truediv,
                    '**': operator.pow, '%': operator.mod, '//': operator.floordiv}[op](a, b)
        if op in ('+', '-'):
            x, y, k = SDyad.align(a, b)
            return SDyad(arith(op, x, y), k).norm()
        if op == '*':
            a = SDyad.lift(a)
            b = SDyad.lift(b)
            return SDyad(arith('*', a.m, b.m), a.k + b.k).norm()
        if op == '/':
            b = SDyad.lift(b)
            if is_sym(b.m):
                raise NeedConcrete('symbolic divisor')
            f = fractions.Fraction(b.m, 1 << b.k)
            if f == 0:
                raise ZeroDivisionError('division by zero')
            inv = 1 / f
            if inv.denominator & (inv.denominator - 1):
                # division by a non power of two: only exact when the numerator is concrete
                a = SDyad.lift(a)
                if is_sym(a.m):
                    raise NeedConcrete('division of a symbolic value by %r' % (f,))
                return float(fractions.Fraction(a.m, 1 << a.k) / f)
            return SDyad.arith('*', a, SDyad(inv.numerator, inv.denominator.bit_length() - 1))
        if op == '**':
            if isinstance(b, (int, np.integer)) and not isinstance(b, bool) and b >= 0:
                r = 1
                for _ in range(int(b)):
                    r = SDyad.arith('*', r, a)
                return r
            raise NeedConcrete('power with dyadic operand')
        raise NeedConcrete('dyadic op ' + op)

    @staticmethod
    def compare(op, a, b):
        try:
            x, y, k = SDyad.align(a, b)
        except NeedConcrete:
            return SDyad._compare_fraction(op, a, b)
        return compare(op, x, y)

    @staticmethod
    def _compare_fraction(op, a, b):
        """exact comparison of a symbolic dyadic m*2^-k with an arbitrary concrete rational t (e.g. a float tolerance):
        m*2^-k > t  <=>  m > t*2^k  <=>  m >= floor(t*2^k)+1"""
        if isinstance(b, (SDyad, SV)) and not isinstance(a, (SDyad, SV)):
            flip = {'<': '>', '>': '<', '<=': '>=', '>=': '<=', '==': '==', '!=': '!='}[op]
            return SDyad._compare_fraction(flip, b, a)
        a = SDyad.lift(a)
        t = fractions.Fraction(b) * (1 << a.k)
        fl = t.numerator // t.denominator
        integral = t.denominator == 1
        if op == '>':
            return compare('>=', a.m, fl + 1)
        if op == '>=':
            return compare('>=', a.m, fl if integral else fl + 1)
        if op == '<':
            return compare('<=', a.m, fl - 1 if integral else fl)
        if op == '<=':
            return compare('<=', a.m, fl)
        if op == '==':
            return compare('==', a.m, fl) if integral else False
        return compare('!=', a.m, fl) if integral else True

    @staticmethod
    def ite(c, a, b):
        x, y, k = SDyad.align(a, b)
        return SDyad(ite(c, x, y), k).norm()

    def __repr__(self):
        return 'SDyad(%r * 2**-%d)' % (self.m, self.k)

    def __add__(self, o): return NotImplemented if not _is_num(o) else arith('+', self, o)
    def __radd__(self, o): return arith('+', o, self)
    def __sub__(self, o): return NotImplemented if not _is_num(o) else arith('-', self, o)
    def __rsub__(self, o): return arith('-', o, self)
    def __mul__(self, o): return NotImplemented if not _is_num(o) else arith('*', self, o)
    def __rmul__(self, o): return arith('*', o, self)
    def __truediv__(self, o): return NotImplemented if not _is_num(o) else arith('/', self, o)
    def __rtruediv__(self, o): return arith('/', o, self)
    def __neg__(self): return arith('-', 0, self)
    def __eq__(self, o): return compare('==', self, o)
    def __ne__(self, o): return compare('!=', self, o)
    def __lt__(self, o): return compare('<', self, o)
    def __le__(self, o): return compare('<=', self, o)
    def __gt__(self, o): return compare('>', self, o)
    def __ge__(self, o): return compare('>=', self, o)
    __hash__ = None

    def __bool__(self):
        return bool(compare('!=', self, 0))

    def __int__(self):
        m = int(self.m)            # concretises (forks) when symbolic
        return int(fractions.Fraction(m, 1 << self.k))

    __index__ = __int__

    def is_integer(self):
        return self.k == 0

    def __abs__(self):
        return SDyad(abs(self.m) if not is_sym(self.m) else self.m.__abs__(), self.k)

    @property
    def real(self): return self
    @property
    def imag(self): return 0
    def conjugate(self): return self


# ---------------------------------------------------------------- complex numbers with exact parts
def _num_parts(x):
    if isinstance(x, SC):
        return x.re, x.im
    if isinstance(x, (complex, np.complexfloating)):
        return _exact(x.real), _exact(x.imag)
    if isinstance(x, (float, np.floating)):
        return _exact(x), 0
    if isinstance(x, (bool, np.bool_, int, np.integer)):
        return int(x), 0
    return x, 0      # SV / SDyad


def _exact(f):
    f = float(f)
    return int(f) if f.is_integer() else f


class SAbs:
    """|z| of an exact complex number; only comparisons with a tolerance 0 < tol are supported:
    for the coefficient domain of the bound (Gaussian integers / dyadics with denominator <= 2**8) and
    tol < 2**-8,  |z| > tol  <=>  z != 0.   The evidence lists this as an assumption."""
    __array_ufunc__ = None

    def __init__(self, c):
        self.c = c

    def compare(self, op, a, b):
        if a is self and not isinstance(b, (SAbs, SV, SDyad, SC)):
            tol = fractions.Fraction(b)
            if tol < 0:
                return {'>': True, '>=': True, '!=': True, '<': False, '<=': False, '==': False}[op]
            sq = arith('+', arith('*', self.c.re, self.c.re), arith('*', self.c.im, self.c.im))    # |z|^2, exact
            return compare(op, sq, tol * tol) if not isinstance(sq, (SV, SDyad)) else SDyad._compare_fraction(op, sq, tol * tol)
        raise NeedConcrete('comparison of |z| with %r' % (b,))

    def __gt__(self, o): return self.compare('>', self, o)
    def __ge__(self, o): return self.compare('>=', self, o)
    def __lt__(self, o): return self.compare('<', self, o)
    def __le__(self, o): return self.compare('<=', self, o)
    __hash__ = None


_IPOW = [(1, 0), (0, 1), (-1, 0), (0, -1)]


class SC:
    __array_priority__ = 1000

    def __init__(self, re, im=0):
        self.re = re
        self.im = im

    def norm(self):
        if isinstance(self.re, (SV, SDyad)) or isinstance(self.im, (SV, SDyad)):
            return self
        return complex(self.re, self.im)

    @staticmethod
    def arith(op, a, b):
        if op == '**':
            if isinstance(a, (complex, np.complexfloating)) and complex(a) == 1j:
                if not isinstance(b, SV):
                    return 1j ** b
                r = arith('%', b, 4)
                out_re, out_im = _IPOW[3]
                for k in (2, 1, 0):
                    c = compare('==', r, k)
                    out_re = ite(c, _IPOW[k][0], out_re)
                    out_im = ite(c, _IPOW[k][1], out_im)
                return SC(out_re, out_im).norm()
            if not isinstance(a, (SC, SV)) and not isinstance(b, (SC, SV)):
                return a ** b
            raise NeedConcrete('complex power')
        ar, ai = _num_parts(a)
        br, bi = _num_parts(b)
        if op == '+':
            return SC(arith('+', ar, br), arith('+', ai, bi)).norm()
        if op == '-':
            return SC(arith('-', ar, br), arith('-', ai, bi)).norm()
        if op == '*':
            return SC(arith('-', arith('*', ar, br), arith('*', ai, bi)),
                      arith('+', arith('*', ar, bi), arith('*', ai, br))).norm()
        if op == '/':
            if isinstance(br, (SV, SDyad)) or isinstance(bi, (SV, SDyad)):
                # a symbolic divisor is concretised by the path explorer (forks once per feasible value)
                br, bi = _concretise(br), _concretise(bi)
            if bi == 0:
                return SC(arith('/', ar, br), arith('/', ai, br)).norm()
            if br == 0:   # a / (i*bi) = -i a / bi
                return SC(arith('/', ai, bi), arith('/', arith('-', 0, ar), bi)).norm()
            d = br * br + bi * bi
            num = SC.arith('*', a, complex(br, -bi))
            nr, ni = _num_parts(num)
            return SC(arith('/', nr, d), arith('/', ni, d)).norm()
        raise NeedConcrete('complex op ' + op)

    @staticmethod
    def compare(op, a, b):
        ar, ai = _num_parts(a)
        br, bi = _num_parts(b)
        eq = b_and(compare('==', ar, br), compare('==', ai, bi))
        if op == '==':
            return eq
        if op == '!=':
            return b_not(eq)
        raise NeedConcrete('ordering of complex numbers')

    @staticmethod
    def ite(c, a, b):
        ar, ai = _num_parts(a)
        br, bi = _num_parts(b)
        return SC(ite(c, ar, br), ite(c, ai, bi)).norm()

    def __repr__(self):
        return 'SC(%r,%r)' % (self.re, self.im)

    def __add__(self, o): return NotImplemented if not _is_num(o) else arith('+', self, o)
    def __radd__(self, o): return arith('+', o, self)
    def __sub__(self, o): return NotImplemented if not _is_num(o) else arith('-', self, o)
    def __rsub__(self, o): return arith('-', o, self)
    def __mul__(self, o): return NotImplemented if not _is_num(o) else arith('*', self, o)
    def __rmul__(self, o): return arith('*', o, self)
    def __truediv__(self, o): return NotImplemented if not _is_num(o) else arith('/', self, o)
    def __rtruediv__(self, o): return arith('/', o, self)
    def __neg__(self): return arith('-', 0, self)
    def __eq__(self, o): return NotImplemented if isinstance(o, np.ndarray) else compare('==', self, o)
    def __ne__(self, o): return NotImplemented if isinstance(o, np.ndarray) else compare('!=', self, o)
    __hash__ = None

    def __abs__(self):
        return SAbs(self)

    def __bool__(self):
        return bool(compare('!=', self, 0))

    @property
    def real(self): return self.re
    @property
    def imag(self): return self.im
    def conjugate(self): return SC(self.re, arith('-', 0, self.im))


def _concretise(x):
    if isinstance(x, SV):
        return int(x)
    if isinstance(x, SDyad):
        f = fractions.Fraction(int(x.m) if isinstance(x.m, SV) else x.m, 1 << x.k)
        return int(f) if f.denominator == 1 else float(f)
    return x


def parts(x):
    """(re, im) of any number of the value domain"""
    return _num_parts(x)


# ---------------------------------------------------------------- arrays
def oarr(x):
    a = np.empty(np.shape(x), dtype=object)
    a[...] = x
    return a


def merge(c, new, old):
    """value merge ite(c,new,old) for scalars / arrays / tuples"""
    if c is True:
        return new
    if c is False:
        return old
    if isinstance(new, np.ndarray) or isinstance(old, np.ndarray):
        new = np.asarray(new, dtype=object) if not isinstance(new, np.ndarray) else new
        old = np.asarray(old, dtype=object) if not isinstance(old, np.ndarray) else old
        if new.shape != old.shape:
            if new.size == old.size == 0:
                return old
            new = np.broadcast_to(new, old.shape)
        r = np.empty(old.shape, dtype=object)
        fo, fn, fr = old.reshape(-1), new.reshape(-1), r.reshape(-1)
        for i in range(fr.shape[0]):
            fr[i] = ite(c, fn[i], fo[i])
        return r
    if isinstance(new, (list, tuple)) or isinstance(old, (list, tuple)):
        if type(new) == type(old) and len(new) == len(old):
            return type(new)(merge(c, n, o) for n, o in zip(new, old))
        raise NeedConcrete('unmergeable containers')
    if new is None or old is None:
        if new is old:
            return new
        raise NeedConcrete('None merge')
    return ite(c, new, old)


def arr_eq(a, b):
    a = np.asarray(a, dtype=object)
    b = np.asarray(b, dtype=object)
    if a.shape != b.shape:
        return False
    return AND(compare('==', x, y) for x, y in zip(a.reshape(-1), b.reshape(-1)))


def sym_array(name, shape, lo=0, hi=1):
    """named input array of fresh integer variables in [lo,hi]; registered for model extraction"""
    a = np.empty(shape, dtype=object)
    f = a.reshape(-1)
    for i in range(f.shape[0]):
        f[i] = STORE.named('%s_%d' % (name, i), lo, hi) if lo != hi else lo
    STORE.inputs[name] = (tuple(np.shape(a)), list(f))
    return a


def model_value(model, x):
    """concrete value of a scalar of the value domain under a z3 model"""
    if isinstance(x, SV):
        v = model.eval(x.e, model_completion=True)
        if x.kind == 'b':
            return bool(z3.is_true(v))
        return v.as_signed_long() if x.signed else v.as_long()
    if isinstance(x, SDyad):
        return fractions.Fraction(model_value(model, x.m), 1 << x.k)
    if isinstance(x, SC):
        return complex(float(model_value(model, x.re)), float(model_value(model, x.im)))
    if isinstance(x, (np.integer,)):
        return int(x)
    if isinstance(x, (np.bool_,)):
        return bool(x)
    return x
