"""Driver: fan the obligations of one property out to worker processes, collect verdicts, write evidence."""
import importlib
import json
import multiprocessing as mp
import os
import random
import sys
import time
import traceback

VERIF = os.path.dirname(os.path.dirname(os.path.abspath(__file__)))
REPLAYS = os.path.join(VERIF, 'replays')
EVIDENCE = os.path.join(VERIF, 'evidence')
KNOWN_FILE = os.path.join(VERIF, 'known_findings.json')

_PK = None
_PKNAMES = ('pyclifford',)
_KNOWN = None


def load_known():
    if not os.path.exists(KNOWN_FILE):
        return []
    return json.load(open(KNOWN_FILE)).get('findings', [])


def packages(names=('pyclifford',)):
    from .loader import Package
    pk = {}
    for n in names:
        if n == 'torchclifford':
            from .shim_torch import TORCH
            pk[n] = Package(n, extra={'torch': TORCH})
        else:
            pk[n] = Package(n)
    return pk


def _worker(job):
    from . import explore
    try:
        # every job starts from freshly loaded modules: no module-level state of the repo leaks between obligations
        pk = _PK if job.get('reuse_modules') else packages(_PKNAMES)
        return explore.run_job(job, pk, _KNOWN, REPLAYS)
    except BaseException as e:   # never lose a job silently
        return dict(label=job['label'], prop=job['prop'], harness=list(job['harness']), params=job['params'],
                    errors=['worker crashed: %s: %s' % (type(e).__name__, e)], trace=traceback.format_exc()[-2000:],
                    obligations=[], violations=[], inconclusive=[], known=[], paths=0, queries=0, solver_s=0.0,
                    vacuity_witnesses=0, folded=0, kernels={}, forked_sites=[], samples=[], assumptions=[],
                    stub_assumptions=[], max_abs=0, wall_s=0)


def _child(conn, fn, arg):
    try:
        conn.send(fn(arg))
    finally:
        conn.close()


def _tv_worker(args):
    from . import tv
    names, seed, n = args
    try:
        return tv.validate(names, seed, n)
    except BaseException as e:
        return dict(runs=0, mismatches=['translator validation crashed: %s: %s' % (type(e).__name__, e)],
                    trace=traceback.format_exc()[-2000:], kernels=[])


def run_property(prop, tier, procs=16, only=None, tv=True):
    global _PK, _KNOWN, _PKNAMES
    t0 = time.time()
    seed = int(os.environ.get('VERIF_SEED', '0'))
    hm = importlib.import_module('harness.' + prop.lower())
    pkg_names = getattr(hm, 'PACKAGES', ('pyclifford',))
    _PKNAMES = pkg_names
    if only and not os.environ.get('EVIDENCE_SUFFIX'):
        os.environ['EVIDENCE_SUFFIX'] = '.partial'        # a filtered (debugging) run never overwrites the property's evidence file
    setup_errors = []
    try:
        _PK = packages(pkg_names)
        for p in _PK.values():      # load every module now so a broken tree fails loudly and once
            for sub in getattr(hm, 'MODULES', ('utils', 'paulialg', 'stabilizer', 'circuit', 'device')):
                p.get(sub)
    except BaseException as e:
        setup_errors.append('loading the repository source failed: %s: %s' % (type(e).__name__, e))
        traceback.print_exc()
    _KNOWN = load_known()
    jobs = []
    pre = {}
    if not setup_errors:
        try:
            if hasattr(hm, 'pre'):
                pre = hm.pre(tier) or {}
            jobs = hm.jobs(tier)
        except BaseException as e:
            setup_errors.append('building the job list failed: %s: %s' % (type(e).__name__, e))
            traceback.print_exc()
    for j in jobs:
        j.setdefault('prop', prop)
        j.setdefault('params', {})
        j.setdefault('label', j['harness'][1] + json.dumps(j['params'], sort_keys=True))
        j.setdefault('claimed', True)
    if only:
        jobs = [j for j in jobs if only in j['label']]
    rnd = random.Random(seed)
    rnd.shuffle(jobs)                       # VERIF_SEED only changes the order in which shapes are visited
    jobs.sort(key=lambda j: -j.get('cost', 1))
    for k, j in enumerate(jobs):            # solver cross-check on a spread of 24 harness instances per run
        j.setdefault('xcheck', 1 if (k * 24) // max(1, len(jobs)) != ((k - 1) * 24) // max(1, len(jobs)) or k == 0 else 0)
    recs = []
    tv_rec = None
    deadline = t0 + getattr(hm, 'BUDGET_S', {}).get(tier, 3600 if tier == 'quick' else 9000)
    if jobs:
        ctx = mp.get_context('fork')
        tvproc = None
        tvconn = None
        if tv and getattr(hm, 'TV_KERNELS', None):
            tvconn, child = ctx.Pipe(duplex=False)
            tvproc = ctx.Process(target=_child, args=(child, _tv_worker, (hm.TV_KERNELS, seed, 40 if tier == 'quick' else 150)))
            tvproc.start()
            child.close()
        pending = list(range(len(jobs)))
        running = {}            # index -> (process, connection, start time, wall limit)
        nproc = max(1, min(procs, len(jobs)) - (1 if tvproc else 0))

        def blank(j, reason):
            return dict(label=j['label'], prop=prop, harness=list(j['harness']), params=j['params'], errors=[],
                        inconclusive=[dict(goal='*', reason=reason)], obligations=[], violations=[], known=[], paths=0, queries=0,
                        solver_s=0.0, vacuity_witnesses=0, folded=0, kernels={}, forked_sites=[], samples=[], assumptions=[],
                        stub_assumptions=[], max_abs=0, wall_s=0)
        while pending or running:
            now = time.time()
            while pending and len(running) < nproc and now < deadline:
                i = pending.pop(0)
                parent, child = ctx.Pipe(duplex=False)
                p = ctx.Process(target=_child, args=(child, _worker, jobs[i]))
                p.start()
                child.close()
                limit = jobs[i].get('wall_s', max(3 * jobs[i].get('timeout_s', 120), 240))
                if os.environ.get('VERIF_JOB_WALL'):
                    limit = float(os.environ['VERIF_JOB_WALL'])
                running[i] = (p, parent, now, limit)
            for i in list(running):
                p, conn, st, limit = running[i]
                if conn.poll():
                    try:
                        recs.append(conn.recv())
                    except EOFError:
                        recs.append(dict(blank(jobs[i], 'worker died'), errors=['worker process died without a result']))
                    p.join()
                    del running[i]
                elif not p.is_alive():
                    recs.append(dict(blank(jobs[i], 'worker died'), errors=['worker process died without a result (exit %s)' % p.exitcode]))
                    del running[i]
                elif now - st > limit or now > deadline:
                    p.terminate()
                    p.join()
                    recs.append(blank(jobs[i], 'job wall-clock limit %ds exceeded (encoding or solving too slow)' % limit
                                      if now <= deadline else 'tier budget exhausted'))
                    del running[i]
            if now > deadline and pending:
                for i in pending:
                    recs.append(blank(jobs[i], 'tier budget exhausted'))
                pending = []
            time.sleep(0.01)
        if tvproc is not None:
            if tvconn.poll(max(5, deadline - time.time())):
                tv_rec = tvconn.recv()
            else:
                tv_rec = dict(runs=0, mismatches=['translator validation timed out'], kernels=[])
                tvproc.terminate()
            tvproc.join()
    claimed = {j['label']: j.get('claimed', True) for j in jobs}
    wv = None
    if tv and recs and not any(r['violations'] for r in recs):
        wv = witness_validation(prop, recs, 150 if tier == "quick" else 300)
        if wv:
            for d in wv['divergences']:
                setup_errors.append('witness validation: ' + d)
            for d in wv['skipped']:
                setup_errors.append('witness validation could not run: ' + d)
    pre = dict(pre, witness_validation=wv)
    return report(prop, tier, seed, recs, claimed, tv_rec, pre, setup_errors, hm, time.time() - t0)


def report(prop, tier, seed, recs, claimed, tv_rec, pre, setup_errors, hm, wall):
    violations, known, errors, inconcl, stretch_inconcl = [], [], list(setup_errors), [], []
    queries = sum(r['queries'] for r in recs)
    solver_s = sum(r['solver_s'] for r in recs)
    obligations = 0
    nontrivial = 0
    folded = 0
    discharged = 0
    kernels = {}
    forked = set()
    samples = []
    assumptions = set()
    stubs = set()
    per_job = []
    max_abs = 0
    for r in sorted(recs, key=lambda r: r['label']):
        is_claimed = claimed.get(r['label'], True)
        for v in r['violations']:
            violations.append((r, v))
        known += [(r, k) for k in r['known']]
        for e in r['errors']:
            errors.append('%s: %s' % (r['label'], e))
        for ob in r['obligations']:
            obligations += 1
            if ob['queries']:
                nontrivial += 1
            if ob['verdict'] in ('unsat', 'known-finding+unsat'):
                discharged += 1
        folded += r.get('folded', 0)
        for i in r['inconclusive']:
            (inconcl if is_claimed else stretch_inconcl).append('%s/%s: %s' % (r['label'], i['goal'], i['reason']))
        for k, v in r['kernels'].items():
            kernels[k] = kernels.get(k, 0) + v
        forked |= set(r['forked_sites'])
        if len(samples) < 6:
            samples += r['samples'][:1]
        assumptions |= set(r.get('assumptions', []))
        stubs |= set(r.get('stub_assumptions', []))
        max_abs = max(max_abs, r.get('max_abs', 0))
        per_job.append(dict(label=r['label'], claimed=is_claimed, paths=r['paths'], queries=r['queries'],
                            solver_s=round(r['solver_s'], 3), wall_s=r.get('wall_s', 0),
                            vacuity_witnesses=r['vacuity_witnesses'],
                            verdicts=sorted(set(o['verdict'] for o in r['obligations'])) or ['none'],
                            slowest=max([(round(o['time_s'], 2), o['name']) for o in r['obligations']] or [(0, '')])))
        if r.get('trace') and r['errors']:
            sys.stderr.write('--- %s\n%s\n' % (r['label'], r['trace']))
    if tv_rec is not None:
        for m in tv_rec.get('mismatches', []):
            errors.append('translator validation: %s' % m)
        if tv_rec.get('trace'):
            sys.stderr.write(tv_rec['trace'] + '\n')
    for e in pre.get('errors', []):
        errors.append('pre-check: %s' % e)
    # ---- result lines
    seen = set()
    for r, k in known:
        key = (k['finding'],)
        if key in seen:
            continue
        seen.add(key)
        print('KNOWN-FINDING: property=%s %s [%s] replay=%s' % (prop, k['what'], k['finding'], os.path.relpath(k['replay'], VERIF)))
    for r, v in violations:
        print('VIOLATION property=%s replay=%s' % (prop, os.path.relpath(v['replay'], VERIF)))
        print('  obligation %s / %s' % (r['label'], v['goal']))
    for e in errors:
        print('HARNESS-ERROR %s' % e)
    for i in inconcl:
        print('INCONCLUSIVE %s' % i)
    for i in stretch_inconcl:
        print('STRETCH-INCONCLUSIVE (not claimed) %s' % i)
    if violations:
        code = 1
    elif errors:
        code = 3
    elif inconcl:
        code = 2
    else:
        code = 0
    # samples: the hardest obligations of this run, written out, plus every witness that was replayed
    hard = sorted(recs, key=lambda r: -r['solver_s'])[:5]
    samples = []
    for r in hard:
        obs = sorted(r['obligations'], key=lambda o: -o['time_s'])[:2]
        samples.append(dict(harness_instance=r['label'], bound=r['params'], paths=r['paths'],
                            obligations=[dict(conjunct=o['name'], verdict=o['verdict'], solver_s=round(o['time_s'], 3), queries=o['queries']) for o in obs],
                            meaning='assumptions AND path condition AND NOT conjunct was decided by z3 for every path of this harness instance'))
    for r, k in known[:3]:
        samples.append(dict(harness_instance=r['label'], known_finding=k['finding'], replayed_witness=k['replay']))
    for r, v in violations[:3]:
        samples.append(dict(harness_instance=r['label'], violated=v['goal'], replayed_witness=v['replay'], inputs=v.get('inputs')))
    if not samples:
        samples = [dict(note='no obligation was generated')]
    ev = dict(
        property_id=prop, tier=tier, seed=seed, level=getattr(hm, 'LEVEL', 'model_checking'),
        coverage=dict(
            evaluations=max(queries, 1), distinct_nontrivial=nontrivial,
            rule='evaluations = SMT queries issued (goal, vacuity and path-feasibility queries); an obligation is one '
                 'named goal conjunct of one harness instance (fixed shape parameters, all array entries symbolic), '
                 'decided on every explored path; it is non-trivial when the encoder could not constant-fold it and z3 '
                 'was invoked; distinct = distinct (harness instance, conjunct name)',
            samples=samples,
            obligations=obligations, discharged=discharged, folded_by_encoder=folded,
            paths=sum(r['paths'] for r in recs), queries=queries, solver_time_s=round(solver_s, 2),
            vacuity_witnesses=sum(r['vacuity_witnesses'] for r in recs),
            functions_encoded=sorted(kernels), kernel_calls=kernels, forked_sites=sorted(forked),
            class_layer_encoded=getattr(hm, 'CLASS_LAYER', []),
            bounds=getattr(hm, 'BOUNDS', {}).get(tier, ''), outside_claim=getattr(hm, 'OUTSIDE', ''),
            inconclusive=inconcl, stretch_inconclusive=stretch_inconcl,
            known_findings=[k['finding'] for _, k in known],
            solver_cross_check=dict(queries_redecided=sum(r.get('xcheck', {}).get('done', 0) for r in recs),
                                    agreed=sum(r.get('xcheck', {}).get('agree', 0) for r in recs),
                                    skipped_other_solver_no_verdict=sum(r.get('xcheck', {}).get('skipped', 0) for r in recs),
                                    tools='/usr/bin/z3 4.8.12, cvc5 1.0 binary (5 s each) on the SMT-LIB2 dump of one obligation of each of 24 harness instances spread over the job list'),
            translator_validation_runs=(tv_rec or {}).get('runs', 0),
            translator_validated_kernels=(tv_rec or {}).get('kernels', []),
            witness_validation=pre.get('witness_validation') or 'not run',
            oracle_self_check=pre.get('oracle_checked', 0), pre=pre.get('info', {}),
            stubs=sorted(stubs | set(getattr(hm, 'STUBS', []))), max_abs_value=max_abs,
            solver='z3 %s QF_BV (python API), fresh solver per obligation' % _z3v(),
            jobs=per_job, exhaustive=False),
        assumptions=sorted(assumptions | set(getattr(hm, 'ASSUMPTIONS', []))),
        wall_s=round(wall, 2), violations=len(violations))
    if ev['level'] == 'translation_validation':
        ev['coverage']['programs'] = max(1, len(recs))
        ev['coverage']['disagreements_checked'] = len(violations) + len(known)
    os.makedirs(EVIDENCE, exist_ok=True)
    with open(os.path.join(EVIDENCE, prop + os.environ.get('EVIDENCE_SUFFIX', '') + '.json'), 'w') as f:
        json.dump(ev, f, indent=1, default=str)
    print('%s tier=%s: %d obligations (%d non-trivial, %d discharged), %d paths, %d queries, solver %.1fs, wall %.1fs, '
          'violations=%d known=%d inconclusive=%d errors=%d -> exit %d'
          % (prop, tier, obligations, nontrivial, discharged, ev['coverage']['paths'], queries, solver_s, wall,
             len(violations), len(seen), len(inconcl), len(errors), code))
    return code


def _z3v():
    import z3
    return z3.get_version_string()


def do_replay_batch(path):
    """witness validation, all witnesses of one run in one process (the real packages are imported once)"""
    from . import explore
    out = []
    for cex in json.load(open(path)):
        try:
            res = explore.judge_all(cex)
        except BaseException as e:
            res = dict(status='judge-crashed', error='%s: %s' % (type(e).__name__, e), trace=traceback.format_exc()[-1200:], checked=0, false_goals=[])
        res['label'] = cex['label']
        out.append(res)
    print('BATCH-RESULT ' + json.dumps(out, default=str))
    return 0


def witness_validation(prop, recs, limit):
    """replay one satisfying input per harness instance (a model of the path's assumptions) on the real build and require
    every goal the solver discharged on that path to hold there: guards against an encoding (stand-ins, harness) that is
    more permissive than the real library"""
    import subprocess
    wits = [w for r in sorted(recs, key=lambda r: r['label']) for w in r.get('witnesses', [])]
    if not wits:
        return None
    step = max(1, -(-len(wits) // limit))
    wits = wits[::step]
    path = os.path.join(VERIF, 'replays', 'witnesses_%s_%d.json' % (prop, os.getpid()))
    os.makedirs(os.path.dirname(path), exist_ok=True)
    json.dump(wits, open(path, 'w'), default=lambda o: int(o) if hasattr(o, '__int__') else str(o))
    t0 = time.time()
    res = dict(witnesses=len(wits), goals_checked=0, agreed=0, divergences=[], skipped=[])
    try:
        p = subprocess.run([sys.executable, os.path.join(VERIF, 'check.py'), '--replay-batch', path], capture_output=True, text=True,
                           timeout=900, cwd=VERIF)
        line = [l for l in p.stdout.splitlines() if l.startswith('BATCH-RESULT ')]
        if not line:
            res['skipped'].append('batch process gave no result: ' + p.stderr[-400:])
        else:
            for r in json.loads(line[-1][len('BATCH-RESULT '):]):
                res['goals_checked'] += r.get('checked', 0)
                if r['status'] == 'agreed':
                    res['agreed'] += 1
                elif r['status'] == 'diverged':
                    # the real build violates a goal on an input the solver produced (a model of the path's assumptions) although
                    # the encoding discharged that goal: the encoding is blind here (e.g. a branch on the dtype of a real
                    # array).  The concrete counterexample is confirmed by the ordinary replay judge and reported as a violation
                    # of the real code; if it does not confirm it stays an encoding error.
                    from . import explore
                    wit = [w for w in wits if w['label'] == r['label']][0]
                    promoted = False
                    for gname in r['false_goals'][:1]:
                        cex = dict(wit, goal=gname, notes=['witness replay: goal discharged in the encoding, false on the real build'])
                        rp_path = explore.write_replay(os.path.join(VERIF, 'replays'), cex)
                        rp = explore.replay_file(rp_path)
                        if rp.get('status') == 'reproduced':
                            for rec in recs:
                                if rec['label'] == r['label']:
                                    rec['violations'].append(dict(goal=gname + ' [witness replay on the real build]', replay=rp_path, inputs=wit['inputs']))
                                    promoted = True
                                    break
                    res.setdefault('violations_found_by_replay', 0)
                    if promoted:
                        res['violations_found_by_replay'] += 1
                    else:
                        res['divergences'].append('%s: goals %s are false on the real build for a model of the path assumptions' % (r['label'], r['false_goals']))
                else:
                    res['skipped'].append('%s: %s %s' % (r['label'], r['status'], r.get('error') or r.get('which') or ''))
    except subprocess.TimeoutExpired:
        res['skipped'].append('batch timed out')
    res['wall_s'] = round(time.time() - t0, 1)
    if not res['divergences'] and not res['skipped']:
        try:
            os.remove(path)
        except OSError:
            pass
    else:
        res['file'] = path
    return res


def do_replay(path, quiet=False):
    from . import explore
    cex = json.load(open(path))
    try:
        res = explore.judge(cex)
    except BaseException as e:
        res = dict(status='judge-crashed', error='%s: %s' % (type(e).__name__, e), trace=traceback.format_exc()[-1500:])
    print('REPLAY-RESULT ' + json.dumps(res, default=str))
    if not quiet:
        print('replay of %s / %s / %s: %s' % (cex['property'], cex['label'], cex['goal'], res['status']))
    return 1 if res['status'] == 'reproduced' else 0
