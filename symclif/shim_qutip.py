"""Exact stand-in for the five qutip functions the repo uses (qeye, sigmax, sigmay, sigmaz, tensor) and for Qobj
arithmetic (+, -, *, scalar *, /).  Stub contract: they are the textbook 2x2 matrices and the Kronecker product.
Entries are exact numbers of the value domain (complex with integer / dyadic parts, possibly symbolic)."""
import numpy as np
from .values import arith, compare, AND, SV, SC, SDyad


class Q:
    __array_ufunc__ = None
    __array_priority__ = 2000
    _is_matrix = True

    def __init__(self, m):
        self.m = np.asarray(m, dtype=object)

    @property
    def shape(self):
        return self.m.shape

    def _bin(self, o, op):
        if isinstance(o, Q):
            r = np.empty(self.m.shape, dtype=object)
            for i in np.ndindex(*self.m.shape):
                r[i] = arith(op, self.m[i], o.m[i])
            return Q(r)
        if op == '+' and not isinstance(o, (SV, SC, SDyad)) and o == 0:      # summation += term, starting from 0
            return self
        raise TypeError('Qobj %s %r' % (op, type(o)))

    def __add__(self, o): return self._bin(o, '+')
    def __radd__(self, o): return self._bin(o, '+')
    def __sub__(self, o): return self._bin(o, '-')
    def __neg__(self): return self._scale(-1)

    def _scale(self, c):
        r = np.empty(self.m.shape, dtype=object)
        for i in np.ndindex(*self.m.shape):
            r[i] = arith('*', c, self.m[i])
        return Q(r)

    def __mul__(self, o):
        if isinstance(o, Q):
            n, k = self.m.shape
            k2, m = o.m.shape
            assert k == k2
            r = np.empty((n, m), dtype=object)
            for i in range(n):
                for j in range(m):
                    acc = 0
                    for l in range(k):
                        a, b = self.m[i, l], o.m[l, j]
                        if (not isinstance(a, (SV, SC, SDyad)) and a == 0) or (not isinstance(b, (SV, SC, SDyad)) and b == 0):
                            continue
                        acc = arith('+', acc, arith('*', a, b))
                    r[i, j] = acc
            return Q(r)
        return self._scale(o)

    __matmul__ = __mul__

    def __rmul__(self, c):
        return self._scale(c)

    def __truediv__(self, c):
        r = np.empty(self.m.shape, dtype=object)
        for i in np.ndindex(*self.m.shape):
            r[i] = arith('/', self.m[i], c)
        return Q(r)

    def full(self):
        return self.m

    def copy(self):
        return Q(self.m.copy())

    def dag(self):
        from .values import SC
        r = np.empty(self.m.shape[::-1], dtype=object)
        for i in np.ndindex(*self.m.shape):
            v = self.m[i]
            r[i[::-1]] = v.conjugate() if hasattr(v, 'conjugate') else v
        return Q(r)

    def tr(self):
        acc = 0
        for i in range(self.m.shape[0]):
            acc = arith('+', acc, self.m[i, i])
        return acc

    def eq(self, other):
        """entrywise equality with a matrix of exact numbers (symbolic bool)"""
        o = other.m if isinstance(other, Q) else np.asarray(other, dtype=object)
        if o.shape != self.m.shape:
            return False
        return AND(compare('==', self.m[i], o[i]) for i in np.ndindex(*self.m.shape))


def _kron(a, b):
    n1, m1 = a.shape
    n2, m2 = b.shape
    r = np.empty((n1 * n2, m1 * m2), dtype=object)
    for i in range(n1):
        for j in range(m1):
            for k in range(n2):
                for l in range(m2):
                    x, y = a[i, j], b[k, l]
                    r[i * n2 + k, j * m2 + l] = 0 if ((not isinstance(x, (SV, SC, SDyad)) and x == 0) or
                                                      (not isinstance(y, (SV, SC, SDyad)) and y == 0)) else arith('*', x, y)
    return r


class QTShim:
    def qeye(self, n):
        return Q([[1 if i == j else 0 for j in range(n)] for i in range(n)])

    def sigmax(self):
        return Q([[0, 1], [1, 0]])

    def sigmay(self):
        return Q([[0, -1j], [1j, 0]])

    def sigmaz(self):
        return Q([[1, 0], [0, -1]])

    def tensor(self, *args):
        if len(args) == 1 and isinstance(args[0], (list, tuple)):
            args = args[0]
        m = np.array([[1]], dtype=object)
        for a in args:
            m = _kron(m, a.m)
        return Q(m)

    Qobj = Q

    def __getattr__(self, name):
        raise NotImplementedError('qutip.%s has no stand-in' % name)


QT = QTShim()
