"""numpy stand-in seen by the repo's modules.

Falls through to real numpy for everything it does not override (so numpy.complex_ fails exactly as it does
for users).  Array constructors return an ndarray subclass (SArr) with dtype=object whose entries are Python
numbers or symbolic scalars; storage is real numpy, so views, copies and aliasing are the real ones.
"""
import numpy as real_np
from .values import (SV, SC, SDyad, SAbs, NeedConcrete, STORE, is_sym, to_int, to_bool, compare, ite, b_and, b_or,
                     b_not, arith, oarr, AND, OR)

_CMP = {real_np.equal: '==', real_np.not_equal: '!=', real_np.less: '<', real_np.less_equal: '<=',
        real_np.greater: '>', real_np.greater_equal: '>='}


def _is_boolish(x):
    return isinstance(x, (bool, real_np.bool_)) or (isinstance(x, SV) and x.kind == 'b')


def _collapse(r):
    """object array of concrete booleans -> bool array (so it can index); otherwise SArr view"""
    if isinstance(r, real_np.ndarray) and r.dtype == object:
        flat = r.reshape(-1)
        if flat.size and all(isinstance(x, (bool, real_np.bool_)) for x in flat):
            return r.astype(bool).view(SArr)
        return r.view(SArr)
    return r


def _norm_index(idx):
    if isinstance(idx, tuple):
        return tuple(_norm_index(i) for i in idx)
    if getattr(idx, '_is_torch_tensor', False) and real_np.asarray(idx).size == 1 and real_np.asarray(idx).dtype == object:
        return int(real_np.asarray(idx).reshape(-1)[0])      # numpy treats a one-element tensor as an integer index (__index__)
    if isinstance(idx, list) and idx and all(isinstance(x, SV) or isinstance(x, (int, real_np.integer)) for x in idx) \
            and any(isinstance(x, SV) for x in idx):
        return [int(x) for x in idx]
    if isinstance(idx, real_np.ndarray) and idx.dtype == object:
        flat = real_np.asarray(idx).reshape(-1)
        if flat.size and all(_is_boolish(x) for x in flat):
            return real_np.array([bool(x) for x in flat], dtype=bool).reshape(idx.shape)   # shape-deciding mask: fork
        if flat.size == 0:
            return real_np.zeros(idx.shape, dtype=int)
        return real_np.array([int(x) for x in flat], dtype=int).reshape(idx.shape)   # SV -> fork via __int__
    if isinstance(idx, SV):
        return bool(idx) if idx.kind == 'b' else int(idx)
    return idx


class SArr(real_np.ndarray):
    def __getitem__(self, idx):
        return real_np.ndarray.__getitem__(self, _norm_index(idx))

    def __setitem__(self, idx, v):
        real_np.ndarray.__setitem__(self, _norm_index(idx), v)

    def __array_ufunc__(self, ufunc, method, *inputs, **kw):
        ins = [real_np.asarray(i) if isinstance(i, SArr) else i for i in inputs]
        outs = None
        if 'out' in kw:
            kw['out'] = tuple(real_np.asarray(o) if isinstance(o, SArr) else o for o in kw['out'])
            if method == '__call__' and len(kw['out']) == 1 and kw['out'][0] is not None and set(kw) == {'out'}:
                # ufunc(..., out=target): evaluate with the symbolic element-wise semantics, then store into the target (in place)
                outs = kw.pop('out')
        if outs is not None:
            r = SArr.__array_ufunc__(self, ufunc, method, *inputs)
            outs[0][...] = real_np.asarray(r)
            return outs[0].view(SArr) if outs[0].dtype == object else outs[0]
        if method == '__call__' and ufunc in _CMP:
            op = _CMP[ufunc]
            r = real_np.frompyfunc(lambda a, b: compare(op, a, b), 2, 1)(*ins)
        elif method == '__call__' and ufunc is real_np.logical_and:
            r = real_np.frompyfunc(b_and, 2, 1)(*ins)
        elif method == '__call__' and ufunc is real_np.logical_or:
            r = real_np.frompyfunc(b_or, 2, 1)(*ins)
        elif method == '__call__' and ufunc in (real_np.logical_not, real_np.invert):
            r = real_np.frompyfunc(b_not, 1, 1)(*ins)
        elif method == '__call__' and ufunc is real_np.bitwise_and:
            r = real_np.frompyfunc(lambda a, b: b_and(a, b) if (_is_boolish(a) and _is_boolish(b)) else a & b, 2, 1)(*ins)
        elif method == '__call__' and ufunc is real_np.bitwise_or:
            r = real_np.frompyfunc(lambda a, b: b_or(a, b) if (_is_boolish(a) and _is_boolish(b)) else a | b, 2, 1)(*ins)
        elif method == '__call__' and ufunc is real_np.absolute:
            r = real_np.frompyfunc(abs, 1, 1)(*ins)
        elif method == '__call__' and ufunc is real_np.power:
            r = real_np.frompyfunc(lambda a, b: arith('**', a, b), 2, 1)(*ins)
        elif method == '__call__' and ufunc is real_np.true_divide:
            r = real_np.frompyfunc(lambda a, b: arith('/', a, b), 2, 1)(*ins)
        else:
            r = getattr(ufunc, method)(*ins, **kw)
        return _collapse(r)

    def all(self, axis=None, **kw):
        return _reduce_bool(real_np.asarray(self), axis, AND)

    def any(self, axis=None, **kw):
        return _reduce_bool(real_np.asarray(self), axis, OR)

    def view(self, *a, **k):
        dt = k.get('dtype', a[0] if a else None)
        if dt is not None and not isinstance(dt, type) and real_np.asarray(self).dtype == object:
            # reinterpreting the bytes of an integer array (structured / byte views): a C boundary, concrete values needed
            return self._concrete().astype(real_np.int64).view(*a, **k)
        return real_np.ndarray.view(self, *a, **k)

    def astype(self, dtype, **kw):
        if dtype in (int, real_np.int_, real_np.int64, real_np.int32, 'int', float, real_np.float64, complex,
                     real_np.complex128, object):
            return self.copy()
        if dtype in (bool, real_np.bool_):
            return _collapse(real_np.frompyfunc(to_bool, 1, 1)(real_np.asarray(self)))
        try:
            dt = real_np.dtype(dtype)
        except TypeError:
            dt = None
        if dt is not None and dt.kind == 'u':
            w = 8 * dt.itemsize
            vals = real_np.frompyfunc(lambda v: arith('%', to_int(v), 1 << w), 1, 1)(real_np.asarray(self)) if self.size else real_np.asarray(self)
            return as_unsigned(real_np.asarray(vals, dtype=object).reshape(self.shape), w)
        if dt is not None and dt.kind == 'i':
            return self.copy()          # narrower signed integers: values of the bounded model fit
        if dt is not None and dt.kind in 'fc':
            return self.copy()
        raise NeedConcrete('astype(%r) on a symbolic array' % (dtype,))

    def dot(self, other):
        a = real_np.asarray(self)
        b = real_np.asarray(other)
        return _collapse(real_np.dot(a, b)) if isinstance(real_np.dot(a, b), real_np.ndarray) else real_np.dot(a, b)

    def tolist(self):
        return real_np.asarray(self).tolist()

    def _concrete(self):
        """a C boundary needs the raw values: concretise every entry (forks the path per symbolic entry)"""
        a = real_np.asarray(self)
        if a.dtype != object:
            return a
        flat = [bool(x) if _is_boolish(x) else int(x) for x in a.reshape(-1)]
        return real_np.array(flat, dtype=bool if flat and all(isinstance(v, bool) for v in flat) else real_np.int64).reshape(a.shape)

    def tobytes(self, *a, **k):
        return self._concrete().tobytes(*a, **k)

    def tostring(self, *a, **k):
        return self._concrete().tobytes(*a, **k)


C_BOUNDARY = {}      # numpy functions without symbolic semantics that were entered with symbolic data (name -> calls)


def _has_sym(x, depth=0):
    if isinstance(x, (SV, SC, SDyad, SAbs)):
        return True
    if isinstance(x, real_np.ndarray):
        return x.dtype == object and any(isinstance(v, (SV, SC, SDyad)) for v in x.reshape(-1))
    if isinstance(x, (list, tuple)) and depth < 2:
        return any(_has_sym(v, depth + 1) for v in x)
    return False


def _make_concrete(x, depth=0):
    from .values import _concretise
    if isinstance(x, SV):
        return bool(x) if x.kind == 'b' else int(x)
    if isinstance(x, SDyad):
        return _concretise(x)
    if isinstance(x, SC):
        return complex(_concretise(x.re), _concretise(x.im))
    if isinstance(x, SAbs):
        return abs(_make_concrete(x.c))
    if isinstance(x, real_np.ndarray) and x.dtype == object:
        return x.view(SArr)._concrete()
    if isinstance(x, (list, tuple)) and depth < 2:
        return type(x)(_make_concrete(v, depth + 1) for v in x)
    return x


def _c_boundary(name, fn):
    """a numpy function that has no symbolic stand-in: called as it is; if it cannot digest symbolic entries (C loops,
    dtype views, bit unpacking, transcendental functions) the symbolic arguments are made concrete -- the path explorer
    forks over their feasible values, exactly as for any other place where Python needs a concrete value"""
    def call(*a, **k):
        if not (any(_has_sym(x) for x in a) or any(_has_sym(x) for x in k.values())):
            return fn(*a, **k)
        try:
            return fn(*a, **k)
        except (TypeError, ValueError, AttributeError):
            C_BOUNDARY[name] = C_BOUNDARY.get(name, 0) + 1
            a2 = tuple(_make_concrete(x) for x in a)
            k2 = {kk: _make_concrete(v) for kk, v in k.items()}
            return fn(*a2, **k2)
    call.__name__ = name
    return call


class UArr(SArr):
    """an array the caller declared with an unsigned integer dtype (numpy.uint8 readout bits, ...): element-wise + - *
    and unary minus with Python / symbolic scalars or other unsigned arrays wrap modulo 2**width, as numpy's do; any
    other operation gives an ordinary (mathematical-integer) array.  Only harnesses create these."""
    _uw = 8

    def __array_finalize__(self, obj):
        self._uw = getattr(obj, '_uw', 8)

    def __array_ufunc__(self, ufunc, method, *inputs, **kw):
        wrapping = (real_np.add, real_np.subtract, real_np.multiply, real_np.negative, real_np.positive)
        plain = tuple(i.view(SArr) if isinstance(i, UArr) else i for i in inputs)
        r = SArr.__array_ufunc__(plain[0] if isinstance(plain[0], SArr) else [p for p in plain if isinstance(p, SArr)][0], ufunc, method, *plain, **kw)
        if method == '__call__' and ufunc in wrapping and isinstance(r, real_np.ndarray) and \
                all(isinstance(i, UArr) or not isinstance(i, real_np.ndarray) for i in inputs) and \
                all(isinstance(i, (UArr, int, real_np.integer, SV)) and not isinstance(i, (bool, real_np.bool_)) for i in inputs):
            w = max(i._uw for i in inputs if isinstance(i, UArr))
            out = real_np.frompyfunc(lambda v: arith('%', v, 1 << w), 1, 1)(real_np.asarray(r, dtype=object))
            out = real_np.asarray(out, dtype=object).reshape(real_np.shape(r)).view(UArr)
            out._uw = w
            return out
        return r

    def astype(self, dtype, **kw):
        return self.view(SArr).astype(dtype, **kw)

    def _concrete(self):
        a = SArr._concrete(self.view(SArr))
        return a.astype({8: real_np.uint8, 16: real_np.uint16, 32: real_np.uint32}.get(self._uw, real_np.uint64))


def as_unsigned(a, width=8):
    """harness helper: the symbolic array `a` (entries in 0 .. 2**width-1) seen as an unsigned-dtype array"""
    out = real_np.array(a, dtype=object).view(UArr)
    out._uw = width
    return out


def _reduce_bool(a, axis, fold):
    """all / any over an axis with symbolic booleans"""
    if axis is None:
        return fold(a.reshape(-1))
    if a.dtype != object:
        return (real_np.all if fold is AND else real_np.any)(a, axis)
    moved = real_np.moveaxis(a, axis, -1)
    out = real_np.empty(moved.shape[:-1], dtype=object)
    for pos in real_np.ndindex(*moved.shape[:-1]):
        out[pos] = fold(moved[pos])
    return _collapse(out) if out.ndim else out[()]


def S(a):
    if isinstance(a, real_np.ndarray) and a.dtype == object and not isinstance(a, SArr):
        return a.view(SArr)
    return a


def _objarr(shape, fill):
    a = real_np.empty(shape, dtype=object)
    a[...] = fill
    return a.view(SArr)


def _int_dtype(dtype):
    """a signed 64-bit integer dtype request (int, numpy.int_, numpy.int64, 'int64')"""
    if dtype is None:
        return False
    if dtype is int:
        return True
    try:
        return real_np.dtype(dtype) == real_np.dtype(real_np.int64)
    except TypeError:
        return False


def _is_bool_dtype(dtype):
    return dtype is bool or dtype is real_np.bool_ or dtype == 'bool'


def _is_complex_dtype(dtype):
    try:
        return dtype is complex or real_np.dtype(dtype).kind == 'c'
    except TypeError:
        return False


class RandomShim:
    """numpy.random.* returns fresh solver variables ("coins"), recorded in draw order"""
    def randint(self, low, high=None, size=None, **kw):
        if high is None:
            low, high = 0, low

        def one():
            if high - 1 == low:
                return low
            sv = STORE.fresh('coin', 0, high - 1 - low)
            STORE.coins.append(sv)
            return sv + low if low else sv
        if size is None:
            return one()
        a = real_np.empty(size, dtype=object)
        f = a.reshape(-1)
        for i in range(f.shape[0]):
            f[i] = one()
        return a.view(SArr)

    def choice(self, a, size=None, **kw):
        vals = list(real_np.asarray(a).reshape(-1))

        def one():
            c = STORE.fresh('coin', 0, len(vals) - 1)
            STORE.coins.append(c)
            r = vals[-1]
            for k in range(len(vals) - 2, -1, -1):
                r = ite(compare('==', c, k), vals[k], r)
            return r
        if size is None:
            return one()
        out = real_np.empty(size, dtype=object)
        f = out.reshape(-1)
        for i in range(f.shape[0]):
            f[i] = one()
        return out.view(SArr)

    def seed(self, *a):
        pass

    def __getattr__(self, name):
        raise NeedConcrete('numpy.random.%s has no symbolic stub' % name)


class NPShim:
    def __init__(self):
        self.random = RandomShim()

    def __getattr__(self, name):
        attr = getattr(real_np, name)
        if isinstance(attr, type) or not callable(attr) or name.startswith('_'):
            return attr
        return _c_boundary(name, attr)

    def dtype(self, *a, **k):
        # symbolic integer arrays are object arrays standing for int64 arrays: a dtype derived from theirs is derived from int64
        if a and isinstance(a[0], tuple) and len(a[0]) == 2 and a[0][0] == real_np.dtype(object):
            a = ((real_np.dtype(real_np.int64), a[0][1]),) + tuple(a[1:])
        return real_np.dtype(*a, **k)

    # ---- constructors
    def zeros(self, shape, dtype=None, **kw):
        if _is_bool_dtype(dtype):
            return real_np.zeros(shape, dtype=bool).view(SArr)
        if dtype is not None and _is_complex_dtype(dtype):
            return _objarr(shape, 0j)
        return _objarr(shape, 0)

    def ones(self, shape, dtype=None, **kw):
        if _is_bool_dtype(dtype):
            return real_np.ones(shape, dtype=bool).view(SArr)
        if dtype is not None and _is_complex_dtype(dtype):
            return _objarr(shape, 1 + 0j)
        return _objarr(shape, 1)

    def empty(self, shape, dtype=None, **kw):
        # uninitialised memory: fresh unconstrained values, so a result that depends on it falsifies its goal
        a = real_np.empty(shape, dtype=object)
        f = a.reshape(-1)
        cx = dtype is not None and _is_complex_dtype(dtype)
        for i in range(f.shape[0]):
            h = STORE.fresh('havoc', 0, 3)
            STORE.havoc.append(h)
            if cx:
                h2 = STORE.fresh('havoc', 0, 3)
                STORE.havoc.append(h2)
                h = SC(h, h2)
            f[i] = h
        return a.view(SArr)

    def eye(self, n, dtype=None, **kw):
        return real_np.eye(n, dtype=int).astype(object).view(SArr)

    def zeros_like(self, a, **kw):
        return self.zeros(real_np.shape(a))

    def ones_like(self, a, **kw):
        return self.ones(real_np.shape(a))

    def empty_like(self, a, **kw):
        return self.empty(real_np.shape(a))

    def arange(self, *a, **kw):
        return real_np.arange(*[int(x) for x in a]).view(SArr)

    def array(self, x, dtype=None, **kw):
        if dtype is not None and not _is_bool_dtype(dtype) and not _is_complex_dtype(dtype):
            try:
                isint = real_np.dtype(dtype).kind in 'iu'
            except TypeError:
                isint = dtype is int
            if isint:
                # an integer dtype was requested: booleans become 0/1 (numpy semantics), symbolic booleans too
                a = real_np.array(x, dtype=object) if not isinstance(x, real_np.ndarray) else x.astype(object)
                f = real_np.frompyfunc(lambda v: (v.as_int() if isinstance(v, SV) else (int(v) if isinstance(v, (bool, real_np.bool_)) else v)), 1, 1)
                out = f(a) if a.size else a
                return real_np.asarray(out, dtype=object).reshape(a.shape).view(SArr)
        if isinstance(x, real_np.ndarray) and x.dtype == bool:
            return x.copy().view(SArr)
        if isinstance(x, real_np.ndarray):
            return real_np.asarray(x).astype(object).view(SArr)
        a = real_np.array(x, dtype=object)
        if a.dtype == object and a.size and all(isinstance(v, (bool, real_np.bool_)) for v in a.reshape(-1)):
            return a.astype(bool).view(SArr)
        return a.view(SArr)

    def asarray(self, x, dtype=None, **kw):
        if isinstance(x, real_np.ndarray) and dtype is None:
            return x
        if isinstance(x, real_np.ndarray) and x.dtype == object and not isinstance(x, UArr) and _int_dtype(dtype) \
                and not any(_is_boolish(v) for v in x.reshape(-1)):
            return x        # object arrays of integers stand for int64 arrays: asking for the dtype they have copies nothing
        if isinstance(x, real_np.ndarray) and x.dtype == object and _is_complex_dtype(dtype) and \
                any(isinstance(v, (complex, real_np.complexfloating, SC)) for v in x.reshape(-1)):
            return x        # an object array holding complex entries stands for a complex128 array: same dtype, no copy
        r = self.array(x, dtype=dtype)
        return r.view(SArr) if isinstance(r, UArr) and _int_dtype(dtype) else r

    # ---- reductions / elementwise with symbolic semantics
    def sum(self, a, axis=None, **kw):
        a = real_np.asarray(a)
        if a.dtype == bool:
            return int(a.sum()) if axis is None else a.sum(axis)
        if a.dtype != object:
            return a.sum(axis)
        if a.size == 0:
            return 0 if axis is None else real_np.sum(real_np.zeros(a.shape, dtype=int), axis).astype(object).view(SArr)
        f = real_np.frompyfunc(lambda x: x.as_int() if isinstance(x, SV) else (int(x) if isinstance(x, (bool, real_np.bool_)) else x), 1, 1)
        r = real_np.sum(f(a), axis)
        return S(r) if isinstance(r, real_np.ndarray) else r

    def all(self, a, axis=None, **kw):
        a = real_np.asarray(a)
        if a.dtype != object:
            return real_np.all(a, axis)
        if a.size == 0 and axis is not None:
            return real_np.all(real_np.zeros(a.shape, dtype=bool), axis)
        return _reduce_bool(a, axis, AND)

    def any(self, a, axis=None, **kw):
        a = real_np.asarray(a)
        if a.dtype != object:
            return real_np.any(a, axis)
        return _reduce_bool(a, axis, OR)

    @staticmethod
    def _into(r, out):
        """ufunc(..., out=target): store the result into the caller's array, in place"""
        if out is None:
            return r
        tgt = out[0] if isinstance(out, tuple) else out
        real_np.asarray(tgt)[...] = real_np.asarray(r)
        return tgt

    def logical_and(self, a, b, out=None):
        return self._into(_collapse(real_np.frompyfunc(b_and, 2, 1)(real_np.asarray(a), real_np.asarray(b))), out)

    def logical_or(self, a, b, out=None):
        return self._into(_collapse(real_np.frompyfunc(b_or, 2, 1)(real_np.asarray(a), real_np.asarray(b))), out)

    def logical_not(self, a, out=None):
        return self._into(_collapse(real_np.frompyfunc(b_not, 1, 1)(real_np.asarray(a))), out)

    def where(self, c, *ab):
        if not ab:
            c = real_np.asarray(c)
            if c.dtype == object:
                c = real_np.array([bool(x) for x in c.reshape(-1)], dtype=bool).reshape(c.shape)
            return real_np.where(c)
        a, b = ab
        c = real_np.asarray(c)
        if c.dtype != object:
            r = real_np.where(c, real_np.asarray(a, dtype=object) if not isinstance(a, real_np.ndarray) else a,
                              real_np.asarray(b, dtype=object) if not isinstance(b, real_np.ndarray) else b)
            return S(r)
        r = real_np.frompyfunc(ite, 3, 1)(c, a, b)
        return S(r)

    def abs(self, a):
        if isinstance(a, real_np.ndarray):
            if a.dtype == object:
                return S(real_np.frompyfunc(abs, 1, 1)(real_np.asarray(a)))
            return real_np.abs(a)
        return abs(a)

    def argmax(self, a, axis=None, **kw):
        a = real_np.asarray(a)
        if a.dtype != object:
            return real_np.argmax(a, axis=axis, **kw)

        def first_max(v):
            # first index whose value is >= all others: fork on comparisons
            best = 0
            for i in range(1, v.size):
                if bool(compare('>', v[i], v[best])):
                    best = i
            return best
        if axis is None:
            return first_max(a.reshape(-1))
        moved = real_np.moveaxis(a, axis, -1)
        out = real_np.empty(moved.shape[:-1], dtype=int)
        for pos in real_np.ndindex(*moved.shape[:-1]):
            out[pos] = first_max(moved[pos])
        return out

    def unique(self, arr, return_index=False, return_inverse=False, axis=None, **kw):
        arr = real_np.asarray(arr)
        if arr.dtype != object:
            return real_np.unique(arr, return_index=return_index, return_inverse=return_inverse, axis=axis, **kw)
        if axis != 0:
            raise NeedConcrete('unique on symbolic array only along axis 0')
        rows = [real_np.asarray(r) for r in arr]
        uniq = []
        first = []
        inv = []
        for k_row, r in enumerate(rows):
            pos = 0
            found = None
            while pos < len(uniq):
                c = _lex_cmp(r, uniq[pos])
                if c == 0:
                    found = pos
                    break
                if c < 0:
                    break
                pos += 1
            if found is None:
                uniq.insert(pos, r)
                first.insert(pos, k_row)
                inv = [i + 1 if i >= pos else i for i in inv]
                inv.append(pos)
            else:
                inv.append(found)
        u = real_np.empty((len(uniq), arr.shape[1]), dtype=object)
        for i, r in enumerate(uniq):
            u[i] = r
        out = [S(u)]
        if return_index:
            out.append(real_np.array(first, dtype=int))
        if return_inverse:
            out.append(real_np.array(inv, dtype=int))
        return tuple(out) if len(out) > 1 else out[0]

    def concatenate(self, arrs, axis=0, **kw):
        arrs = [real_np.asarray(a) for a in arrs]
        if any(a.dtype == object for a in arrs):
            arrs = [a.astype(object) for a in arrs]
        return S(real_np.concatenate(arrs, axis))

    def stack(self, arrs, axis=0, **kw):
        arrs = [real_np.asarray(a) for a in arrs]
        if any(a.dtype == object for a in arrs):
            arrs = [a.astype(object) for a in arrs]
        return S(real_np.stack(arrs, axis))

    def expand_dims(self, a, axis):
        return S(real_np.expand_dims(real_np.asarray(a), axis)) if not isinstance(a, SArr) else real_np.expand_dims(a, axis)

    def flipud(self, a):
        return a[::-1]

    def reshape(self, a, shape):
        return a.reshape(shape)

    def repeat(self, a, n, **kw):
        return real_np.repeat(a, n, **kw)

    def ix_(self, *args):
        if any(getattr(a, '_is_torch_tensor', False) for a in args):
            # numpy.repeat / ix_ of a torch bool tensor give uint8 arrays of 0/1 *values* (not positions); torch then
            # reads them as masks of the wrong shape.  Keep that: uint8 open-mesh arrays, judged by the tensor stand-in.
            return real_np.ix_(*[real_np.array([int(bool(x)) for x in real_np.asarray(a).reshape(-1)], dtype=real_np.uint8) for a in args])
        return real_np.ix_(*[real_np.asarray(_norm_index(real_np.asarray(a))) if isinstance(a, real_np.ndarray) else a for a in args])

    def count_nonzero(self, a, *args, **kw):
        a = real_np.asarray(a)
        if a.dtype != object:
            return real_np.count_nonzero(a, *args, **kw)
        tot = 0
        for x in a.reshape(-1):
            tot = tot + ite(to_bool(x), 1, 0)
        return tot

    def shares_memory(self, a, b):
        return real_np.shares_memory(a, b)


def _lex_cmp(a, b):
    """-1/0/1 after a three-way fork on *merged* comparison terms (not once per bit)"""
    lt = False
    eq = True
    for x, y in zip(a, b):
        lt = b_or(lt, b_and(eq, compare('<', x, y)))
        eq = b_and(eq, compare('==', x, y))
    if bool(eq):
        return 0
    return -1 if bool(lt) else 1


NP = NPShim()
