#!/usr/bin/env python3
"""Solver-based check of one property of hongyehu/PyClifford.

  check.py C06 --tier quick|thorough      decide the property's obligations; write evidence/C06.json
  check.py --replay replays/x.json        re-run one counterexample against the real build

exit 0: every claimed obligation unsat (property held within the bound)
exit 1: a counterexample reproduced on the real build  (line: VIOLATION property=<id> replay=<path>)
exit 2: a claimed obligation was inconclusive (solver unknown / timeout)
exit 3: harness error (encoder met an unsupported construct, a model did not reproduce, translator mismatch)
"""
import argparse
import json
import os
import subprocess
import sys
import time

VERIF = os.path.dirname(os.path.abspath(__file__))
VENV_PY = os.path.join(VERIF, '.venv', 'bin', 'python')


def bootstrap():
    if os.path.abspath(sys.executable) != os.path.abspath(VENV_PY) and os.environ.get('SYMCLIF_NO_REEXEC') != '1':
        if not os.path.exists(VENV_PY):
            subprocess.check_call(['/bin/sh', os.path.join(VERIF, 'setup.sh')], stdout=sys.stderr)
        os.execv(VENV_PY, [VENV_PY] + sys.argv)


def main():
    ap = argparse.ArgumentParser()
    ap.add_argument('prop', nargs='?')
    ap.add_argument('--tier', default=os.environ.get('VERIF_TIER', 'quick'))
    ap.add_argument('--replay')
    ap.add_argument('--replay-batch')
    ap.add_argument('--quiet', action='store_true')
    ap.add_argument('--procs', type=int, default=int(os.environ.get('VERIF_PROCS', '16')))
    ap.add_argument('--only', default=None, help='substring filter on job labels (debugging)')
    ap.add_argument('--no-tv', action='store_true')
    ap.add_argument('--list', action='store_true', help='list job labels and exit')
    args = ap.parse_args()
    sys.path.insert(0, VERIF)
    os.chdir(VERIF)
    if args.replay:
        from symclif.driver import do_replay
        sys.exit(do_replay(args.replay, quiet=args.quiet))
    if args.replay_batch:
        from symclif.driver import do_replay_batch
        sys.exit(do_replay_batch(args.replay_batch))
    if not args.prop:
        ap.error('property id required')
    from symclif.driver import run_property
    if args.list:
        import importlib
        hm = importlib.import_module('harness.' + args.prop.lower())
        for j in hm.jobs(args.tier):
            print(j.get('label') or (j['harness'][1] + __import__('json').dumps(j.get('params', {}), sort_keys=True)))
        sys.exit(0)
    sys.exit(run_property(args.prop, args.tier, procs=args.procs, only=args.only, tv=not args.no_tv))


if __name__ == '__main__':
    bootstrap()
    main()
