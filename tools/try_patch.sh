#!/bin/sh
# usage: try_patch.sh <patch.diff> <tier> <prop> [<prop>...]   -- run checks against a scratch copy of /repo with the patch applied
set -e
P=$(readlink -f "$1"); TIER=$2; shift 2
D=$(mktemp -d /tmp/mut.XXXXXX)
cp -r /repo/pyclifford /repo/torchclifford "$D"/
( cd "$D" && patch -p1 -s --no-backup-if-mismatch < "$P" ) || { echo "PATCH DID NOT APPLY"; rm -rf "$D"; exit 9; }
cd /verif
for prop in "$@"; do
  PYCLIFFORD_ROOT="$D" EVIDENCE_SUFFIX=.mut ./.venv/bin/python check.py "$prop" --tier "$TIER" --no-tv 2>&1 | grep -E "^(VIOLATION|KNOWN|HARNESS|INCONCL|C[0-9]+ tier)" | cut -c1-260 | head -${MAXLINES:-8}
done
rm -rf "$D"
