#!/usr/bin/env python3
"""Regenerate MANIFEST.json from the table below (one entry per property that has a landed check)."""
import json, os
V = os.path.dirname(os.path.dirname(os.path.abspath(__file__)))
TECH = 'bounded symbolic execution of the repo source (predicated AST interpreter for @njit kernels, forking explorer for the class layer) + z3 QF_BV verdict per obligation; sat models replayed on the real build'
NOTE = ('Bounded: shapes (N, L, r, masks, program shapes) are enumerated, every array entry / phase / coin is a solver '
        'variable; nothing is claimed outside the bounds stated in the evidence. Trusted base: z3; the matrix-derived '
        'reference semantics (validated against dense matrices on every run); standard stabilizer theory linking '
        'group-level facts to density matrices; translator validation of the kernel interpreter against the numba build.')
CLAIMED = {}
EXTRA = (' In addition (DESIGN.md section 6): call-history and argument-form obligations decided the same way -- an argument '
         'aliasing its receiver, the same object on both sides of an operator, reuse of an object after an intermediate '
         'call, request / modify the result / request again, operands stored as non-contiguous views, unsigned and '
         'numpy-integer arguments. One model per harness instance is also replayed on the real build (witness validation).')
def claim(pid, text, section, level='model_checking', technique=TECH, note=NOTE):
    CLAIMED[pid] = dict(text=text + EXTRA, section=section, level=level, technique=technique, note=note)
exec(open(os.path.join(V, 'tools', 'claims.py')).read())
props = [json.loads(l) for l in open(os.path.join(V, 'properties.jsonl'))]
NA = json.load(open(os.path.join(V, 'tools', 'not_applicable.json')))
checks = []
for p in props:
    pid = p['id']
    if pid not in CLAIMED:
        continue
    c = CLAIMED[pid]
    checks.append(dict(property_id=pid, quick_cmd='python3 check.py %s --tier quick' % pid,
                       thorough_cmd='python3 check.py %s --tier thorough' % pid,
                       evidence_file='/verif/evidence/%s.json' % pid,
                       replay_cmd_template='python3 check.py --replay {path}', engine='symclif',
                       level_claimed=dict(category=c['level'], text=c['text'], design_ref=c['section']),
                       level_note=c['note'], technique=c['technique']))
na = [dict(property_id=p['id'], reason=NA.get(p['id'], 'check not built yet in this round; see DESIGN.md section 3')) for p in props if p['id'] not in CLAIMED]
m = dict(version=1, setup_cmd='sh ./setup.sh',
         hooks=dict(guard='PYCLIFFORD_VERIF', enable='no source hooks are needed: the checks read /repo (or $PYCLIFFORD_ROOT) as it is', 
                    baseline_off_cmd='cd /repo && /venv/bin/python -m pytest -ra -q -p no:cacheprovider --timeout=900 --continue-on-collection-errors',
                    source_commits=[], add_only=True),
         engines=[dict(name='symclif', path='/verif/symclif', serves_properties=sorted(CLAIMED),
                       kind_free_text='bounded symbolic execution of the Python source (AST interpreter with state merging for numba kernels, native execution with path forking for the class layer) over z3 bit-vector terms; counterexamples replayed against the real numba/numpy build')],
         checks=checks, not_applicable=na,
         notes='Exit codes of check.py: 0 held within bound, 1 reproduced violation, 2 claimed obligation inconclusive, 3 harness error. Known findings: /verif/known_findings.json. See DESIGN.md.')
json.dump(m, open(os.path.join(V, 'MANIFEST.json'), 'w'), indent=1)
print('claimed', sorted(CLAIMED), 'not applicable', [x['property_id'] for x in na])
