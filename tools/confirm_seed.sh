#!/bin/sh
# usage: confirm_seed.sh <name> <property> <dir with patch.diff demo.py meta.json>
# Confirms a seeded change in a scratch worktree of /repo's HEAD: applies, existing stable tests still pass, demo fails with / passes without.
# On success stores /verif/seeded/<name>/{patch.diff,demo.py,meta.json}.  Removes the worktree afterwards.
set -u
NAME=$1; PROP=$2; SRC=$(readlink -f "$3")
WT=/tmp/cw_$NAME
git -C /repo worktree remove --force "$WT" 2>/dev/null; rm -rf "$WT"
git -C /repo worktree add -q --detach "$WT" HEAD || exit 9
cd "$WT"
if ! git apply "$SRC/patch.diff" 2>/dev/null; then
  patch -p1 -s --no-backup-if-mismatch < "$SRC/patch.diff" || { echo "RESULT $NAME patch-does-not-apply"; git -C /repo worktree remove --force "$WT"; exit 1; }
fi
git diff -- pyclifford torchclifford > /tmp/cw_$NAME.diff
PYTHONPATH="$WT" /venv/bin/python -c "import pyclifford,sys; assert pyclifford.__file__.startswith('$WT'), pyclifford.__file__" || exit 9
PYTHONPATH="$WT" /venv/bin/python "$SRC/demo.py" > /tmp/cw_$NAME.demo_with 2>&1; DW=$?
PYTHONPATH="$WT" /venv/bin/python -m pytest -q -p no:cacheprovider --timeout=900 --junitxml=/tmp/cw_$NAME.xml > /tmp/cw_$NAME.tests 2>&1
git checkout -q -- pyclifford torchclifford
PYTHONPATH="$WT" /venv/bin/python "$SRC/demo.py" > /tmp/cw_$NAME.demo_without 2>&1; DO=$?
cd /verif
MISSING=$(python3 - "$NAME" <<'PY'
import json,sys,xml.etree.ElementTree as ET
name=sys.argv[1]
base=set(json.load(open('/root/.vp/BASELINE.json'))['stable_pass'])
t=ET.parse('/tmp/cw_%s.xml'%name)
ok=set()
for tc in t.iter('testcase'):
    if not any(c.tag in ('failure','error','skipped') for c in tc):
        ok.add(tc.get('classname')+'::'+tc.get('name'))
print(','.join(sorted(base-ok)))
PY
)
TESTS=$(tail -1 /tmp/cw_$NAME.tests)
echo "RESULT $NAME demo_with_exit=$DW demo_without_exit=$DO stable_tests_missing=[$MISSING] tests: $TESTS"
if [ "$DW" != "0" ] && [ "$DO" = "0" ] && [ -z "$MISSING" ]; then
  mkdir -p /verif/seeded/$NAME
  cp /tmp/cw_$NAME.diff /verif/seeded/$NAME/patch.diff
  cp "$SRC/demo.py" /verif/seeded/$NAME/demo.py
  python3 - "$NAME" "$PROP" "$SRC" "$DW" "$DO" "$TESTS" <<'PY'
import json,sys
name,prop,src,dw,do,tests=sys.argv[1:7]
m=json.load(open(src+'/meta.json'))
out=dict(property=prop, breaks=prop, summary=m.get('summary'), needs_to_manifest=m.get('needs_to_manifest'), files_changed=m.get('files_changed'),
         author='independent sub-agent given only the property text and a scratch worktree',
         confirmed_by_me=dict(base_commit=open('/repo/.git/refs/heads/main').read().strip() if True else '',
             what_i_ran=['git worktree add --detach /tmp/cw_%s HEAD; git apply patch.diff'%name,
                         'PYTHONPATH=<wt> /venv/bin/python demo.py  -> exit %s (with the change)'%dw,
                         'PYTHONPATH=<wt> /venv/bin/python -m pytest -q -p no:cacheprovider --timeout=900 -> %s; all 58 stable-baseline tests passed'%tests,
                         'git checkout -- pyclifford torchclifford; demo.py -> exit %s (without the change)'%do]))
json.dump(out, open('/verif/seeded/%s/meta.json'%name,'w'), indent=1)
PY
  echo "STORED /verif/seeded/$NAME"
fi
git -C /repo worktree remove --force "$WT"
rm -f /tmp/cw_$NAME.xml
